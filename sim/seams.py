"""Seams the simulator owns (DESIGN.md 2.2).  Installed from outside: no edit
to /repo is needed because every source of nondeterminism is reachable as a
module attribute."""
from __future__ import annotations

import datetime as _dt
import os
import random
import uuid


class StepBudgetExceeded(BaseException):
    """Bounded-liveness failure: the walk did not finish within the budget."""


class Seams:
    """Holds the PRNG-driven replacements for one simulated process."""

    def __init__(self, uuid_seed: int, clock_origin_s: int = 1704067200,
                 clock_tick_us: int = 1000, fs_seed: int = 0,
                 step_budget: int = 50000):
        self.uuid_rng = random.Random(uuid_seed)
        self.uuid_calls = 0
        self.clock_origin = _dt.datetime(1970, 1, 1) + _dt.timedelta(
            seconds=clock_origin_s
        )
        self.clock_tick_us = clock_tick_us
        self.clock_calls = 0
        self.fs_rng = random.Random(fs_seed)
        self.fs_permuted = 0
        self.steps = 0
        self.step_budget = step_budget
        self.step_kinds: dict[str, int] = {}

    # -- uuid ---------------------------------------------------------------
    def uuid4(self):
        self.uuid_calls += 1
        return uuid.UUID(int=self.uuid_rng.getrandbits(128), version=4)

    # -- clock --------------------------------------------------------------
    def now(self):
        self.clock_calls += 1
        return self.clock_origin + _dt.timedelta(
            microseconds=self.clock_tick_us * self.clock_calls
        )

    @property
    def simulated_ns(self) -> int:
        return self.clock_calls * self.clock_tick_us * 1000

    # -- step budget ----------------------------------------------------------
    def step(self, kind: str):
        self.steps += 1
        self.step_kinds[kind] = self.step_kinds.get(kind, 0) + 1
        if self.steps > self.step_budget:
            raise StepBudgetExceeded(kind)


class _OsProxy:
    """Delegates to the real os module but permutes directory listings."""

    def __init__(self, seams: Seams):
        self._seams = seams

    def __getattr__(self, name):
        return getattr(os, name)

    def listdir(self, path="."):
        names = sorted(os.listdir(path))
        self._seams.fs_rng.shuffle(names)
        self._seams.fs_permuted += 1
        return names

    def walk(self, top, *a, **k):
        for root, dirs, files in os.walk(top, *a, **k):
            dirs.sort()
            files = sorted(files)
            self._seams.fs_rng.shuffle(dirs)
            self._seams.fs_rng.shuffle(files)
            self._seams.fs_permuted += 1
            yield root, dirs, files


_WALK_STEP_FUNCS = (
    "handle_reach_logic_merge_point",
    "handle_reach_potential_merge_point",
    "update_puml_graph_with_event_node",
    "handle_logic_node_cases",
)


def install(seams: Seams, detect_loops_monitor=None):
    """Patch the code under test.  Called inside a forked child, so nothing
    has to be undone."""
    import sys

    # code under test runs under the interpreter's default recursion limit
    # (sim/puml_sem.py raises it for the reference model only)
    sys.setrecursionlimit(1000)
    import tel2puml.events as ev
    import tel2puml.logic_detection as ld
    import tel2puml.pv_to_puml.walk_puml_graph.node as nd
    import tel2puml.pv_event_simulator as pes
    import tel2puml.pv_to_puml.pv_to_puml as p2p
    import tel2puml.pv_to_puml.walk_puml_graph.walk_puml_logic_graph as wk
    import tel2puml.__main__ as mn
    import tel2puml.otel_to_pv.data_sources.json_data_source.json_datasource \
        as jds

    for mod in (ev, ld, nd, pes):
        mod.uuid4 = seams.uuid4

    class FakeDT(_dt.datetime):
        @classmethod
        def now(cls, tz=None):
            return seams.now()

    ld.datetime = FakeDT

    proxy = _OsProxy(seams)
    p2p.os = proxy
    mn.os = proxy
    jds.os = proxy

    for name in _WALK_STEP_FUNCS:
        real = getattr(wk, name)

        def wrapped(*a, __real=real, __name=name, **k):
            seams.step(__name)
            return __real(*a, **k)

        setattr(wk, name, wrapped)

    if detect_loops_monitor is not None:
        real_dl = p2p.detect_loops

        def monitored(graph):
            snap = detect_loops_monitor.before(graph)
            try:
                out = real_dl(graph)
            except StepBudgetExceeded:
                raise
            except BaseException as e:
                # loop extraction itself failed (e.g. unbounded recursion on
                # a cycle it did not remove): a C07 outcome, then re-raised
                detect_loops_monitor.failed(snap, e)
                raise
            detect_loops_monitor.after(snap, out)
            return out

        p2p.detect_loops = monitored


def quiet():
    """Silence tqdm / logging / warnings (never touches a PRNG)."""
    import logging
    import warnings

    warnings.filterwarnings("ignore")
    logging.disable(logging.CRITICAL)
    os.environ["TQDM_DISABLE"] = "1"
