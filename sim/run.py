"""Entry point of ./check: dispatch a property id to its check."""
import sys
import traceback


def main():
    if len(sys.argv) < 2:
        print("usage: check <PROPERTY> [--tier quick|thorough] [--seed N] "
              "[--replay file]")
        sys.exit(2)
    prop = sys.argv[1]
    argv = sys.argv[2:]
    try:
        if prop in ("C01", "C02", "C03", "C05", "C07"):
            from sim import checks_learner

            checks_learner.main(prop, argv)
        elif prop == "C04":
            from sim import check_c04

            check_c04.main(argv)
        elif prop == "C06":
            from sim import check_c06

            check_c06.main(argv)
        elif prop in ("C09", "C10", "C11", "C12"):
            from sim import checks_store

            checks_store.main(prop, argv)
        elif prop in ("C14", "C15"):
            from sim import checks_cli

            checks_cli.main(prop, argv)
        elif prop == "selftest":
            from sim import selftest

            selftest.main(argv)
        else:
            print(f"HARNESS-ERROR unknown property {prop}")
            sys.exit(2)
    except SystemExit:
        raise
    except BaseException as e:
        traceback.print_exc()
        print(f"HARNESS-ERROR {type(e).__name__}: {e}")
        sys.exit(2)


if __name__ == "__main__":
    main()
