"""The fixed schedule grid (DESIGN.md 2.9).

A grid point is (workload id, schedule id).  Everything about the point - hash
class, uuid stream, clock origin, presentation, sub-sampling - is derived from
fixed salts, *not* from VERIF_SEED.  VERIF_SEED selects which grid points a
run visits.  This keeps the unchanged tree quiet for every VERIF_SEED (the whole
grid was soaked while building) while every visit is still one exactly
repeatable simulated execution."""
from __future__ import annotations

import random

from . import core

N_HASH_CLASSES = 16
N_SCHEDULES = 32           # schedule ids 0..31 per workload
N_GENX = 600             # genx:0 .. genx:N_GENX-1 (C05 / C07 only)
N_GENY = 700             # geny:0 .. geny:N_GENY-1 (C03 / C05 / C07 only)
N_GEN = 3000               # gen:0 .. gen:N_GEN-1 (before exclusions)


def schedule_flags(sid: int) -> dict:
    """Which faults a schedule id enables (swarm style, fixed)."""
    if sid == 0:
        return dict(perm_jobs=False, perm_events=False, rename=False,
                    shift=False, dup=None, subsample=False, kmax_in=2,
                    via_cli=False)
    r = random.Random(core.grid("flags", sid))
    return dict(
        perm_jobs=r.random() < 0.8,
        perm_events=r.random() < 0.6,
        rename=r.random() < 0.5,
        shift=r.random() < 0.5,
        dup=r.choice([None, None, "same", "renamed"]),
        subsample=(sid % 8 == 3),
        kmax_in=3 if sid % 8 == 5 else 2,
        # delivered as job files in a folder and learnt through the real CLI
        # (pv2puml -fp): the directory listing order becomes part of the
        # schedule
        via_cli=(sid % 8 == 6),
    )


def learn_unit(wid: str, sid: int, want=("c01", "c02", "c05")) -> dict:
    fl = schedule_flags(sid)
    return {
        "kind": "learn",
        "wid": wid,
        "sched": sid,
        "hash_class": sid % N_HASH_CLASSES,
        "uuid_seed": core.grid("uuid", wid, sid),
        "clock_origin_s": 1_600_000_000 + core.grid("clock", sid) % 200_000_000,
        "clock_tick_us": [1, 1000, 1_000_000][core.grid("tick", sid) % 3],
        "kmax_in": fl["kmax_in"],
        "via_cli": fl["via_cli"],
        "fs_seed": core.grid("fs", wid, sid),
        "present": {
            "order": None,
            "derive": {
                "seed": core.grid("present", wid, sid),
                "sub_seed": core.grid("subsample", wid, sid),
                "perm_jobs": fl["perm_jobs"],
                "dup": fl["dup"],
                "subsample": fl["subsample"],
            },
            "event_perm_seed": (core.grid("evperm", wid, sid)
                                if fl["perm_events"] else None),
            "rename_seed": (core.grid("rename", wid, sid)
                            if fl["rename"] else None),
            "ts_shift_s": (core.grid("shift", wid, sid) % 10**8
                           if fl["shift"] else 0),
            "dup_same_ids": fl["dup"] == "same",
        },
        "want": list(want),
    }


def derive_order(n_src2: int, n_src: int, d: dict) -> list[int]:
    """Explicit job order from the derivation record (deterministic)."""
    r = random.Random(d["seed"])
    idx = list(range(n_src))
    if d.get("subsample") and n_src2 > 1:
        rs = random.Random(d.get("sub_seed", d["seed"]))
        k = rs.randint(1, n_src2)
        idx = sorted(rs.sample(range(n_src2), k))
    if d.get("perm_jobs"):
        r.shuffle(idx)
    if d.get("dup") and idx:
        j = r.choice(idx)
        idx.insert(r.randrange(len(idx) + 1), j)
    return idx
