"""World L: the learner (pv2puml) and its upstream, DESIGN.md 2.3.

A unit is one fully explicit simulated run: workload (definition AST or id),
job selection, presentation (order, in-file order, id renaming, timestamp
shift, duplicates), schedule (hash class, uuid stream, clock).  It is executed
in a forked child against the real `pv_to_puml_string`; the child returns an
observation record on which the property oracles are evaluated."""
from __future__ import annotations

import datetime as _dt
import hashlib
import random
import uuid as _uuid

from . import core, puml_sem, seams as seams_mod, gen_defs

JOB_CAP = 400
LANG_CAP = 30000
STEP_BUDGET = 50000


def preload():
    seams_mod.quiet()
    import tel2puml.pv_to_puml.pv_to_puml  # noqa: F401
    import tel2puml.__main__  # noqa: F401
    import tel2puml.otel_to_puml  # noqa: F401
    import networkx  # noqa: F401


# ---------------------------------------------------------------------------
# C07 monitor (wraps detect_loops inside the run)
# ---------------------------------------------------------------------------
class LoopMonitor:
    """Invariants of property C07 evaluated on the graph returned by
    detect_loops (and recursively on every loop body).  `src_mult` is the
    number of times each event name occurs in the *source definition*: the
    extraction must not duplicate an event, so a type may occur in the
    nesting at most as often as it occurs in the source (exactly once for
    fragment F, whose names are distinct)."""

    def __init__(self, src_mult: dict | None = None):
        self.src_mult = src_mult or {}
        self.violations: list = []
        self.calls = 0
        self.loops = 0
        self.max_depth = 0
        self.nesting_sig = None

    def before(self, graph):
        import networkx as nx

        g = nx.DiGraph()
        for n in graph.nodes:
            g.add_node(n.event_type)
        for u, v in graph.edges:
            g.add_edge(u.event_type, v.event_type)
        return g

    def failed(self, orig, exc):
        self.calls += 1
        self.violations.append(["detect-loops-raises",
                                type(exc).__name__])

    def after(self, orig, out):
        import networkx as nx
        from tel2puml.loop_detection.loop_types import LoopEvent

        self.calls += 1
        seen: list[str] = []
        bodies: list[set] = []
        sig = []

        def is_dummy(et):
            # anything that is not an event name of the definition is an
            # internal node (dummy start/end/break, loop node): independent
            # of how the code under test names its placeholders
            if self.src_mult:
                return et not in self.src_mult
            return et.startswith("|||") or et == "DUMMY_BREAK"

        def check_graph(g, path, depth):
            self.max_depth = max(self.max_depth, depth)
            if not nx.is_directed_acyclic_graph(g):
                self.violations.append(["cyclic", path])
            roots = sorted(n.event_type for n, d in g.in_degree() if d == 0)
            if len(roots) != 1:
                self.violations.append(["entries", path, roots])
            types = set()
            level = []
            for n in g.nodes:
                if isinstance(n, LoopEvent):
                    self.loops += 1
                    t = check_graph(
                        n.sub_graph, path + "/" + n.event_type, depth + 1
                    )
                    types |= t
                    level.append("L(" + ",".join(sorted(t)) + ")")
                else:
                    et = n.event_type
                    if is_dummy(et):
                        continue
                    seen.append(et)
                    types.add(et)
                    level.append(et)
            bodies.append(types)
            sig.append([path.count("/"), sorted(level)])
            return types

        check_graph(out, "top", 0)
        obs = sorted(t for t in orig.nodes if not is_dummy(t))
        lost = sorted(set(obs) - set(seen))
        dup = sorted({t for t in seen
                      if seen.count(t) > max(1, self.src_mult.get(t, 1))})
        extra = sorted(set(seen) - set(obs))
        if lost or dup or extra:
            self.violations.append(
                ["conservation", {"lost": lost, "dup": dup, "extra": extra}]
            )
        for scc in nx.strongly_connected_components(orig):
            if len(scc) > 1 or any(orig.has_edge(n, n) for n in scc):
                real = {t for t in scc if not is_dummy(t)}
                if not any(real <= b for b in bodies[:-1]):
                    self.violations.append(["cycle-not-in-loop", sorted(real)])
        self.nesting_sig = sorted(sig)


# ---------------------------------------------------------------------------
# explicit presentation
# ---------------------------------------------------------------------------
def job_to_pv(nodes, jid: str, ids: list[str], base: _dt.datetime):
    out = []
    for i, t, pr in nodes:
        e = dict(
            jobId=jid,
            eventId=ids[i],
            eventType=t,
            timestamp=(base + _dt.timedelta(microseconds=37 * i)).strftime(
                "%Y-%m-%dT%H:%M:%S.%fZ"
            ),
            applicationName="app",
            jobName="x",
        )
        if pr:
            e["previousEventIds"] = [ids[p] for p in pr]
        out.append(e)
    return out


def build_delivery(src_jobs, present: dict):
    """Explicit delivery: present = {order:[job indices, repeats allowed],
    event_perm_seed:int|None, rename_seed:int|None, ts_shift_s:int,
    dup_same_ids:bool}.  A job index that occurs twice in `order` is the
    fault "job delivered twice": with dup_same_ids the second delivery carries
    the very same job/event ids, otherwise fresh ones."""
    order = present["order"]
    rr = (random.Random(present["rename_seed"])
          if present.get("rename_seed") is not None else None)
    er = (random.Random(present["event_perm_seed"])
          if present.get("event_perm_seed") is not None else None)
    base0 = _dt.datetime(2023, 9, 25, 10, 58, 6, 59959) + _dt.timedelta(
        seconds=present.get("ts_shift_s", 0)
    )
    pv = []
    first: dict[int, tuple] = {}
    count: dict[int, int] = {}
    for pos, ji in enumerate(order):
        nodes = src_jobs[ji]
        occ = count.get(ji, 0)
        count[ji] = occ + 1
        if occ and present.get("dup_same_ids"):
            jid, ids = first[ji]
        elif rr is not None:
            jid = str(_uuid.UUID(int=rr.getrandbits(128), version=4))
            ids = [str(_uuid.UUID(int=rr.getrandbits(128), version=4))
                   for _ in nodes]
        else:
            suffix = f"r{occ}" if occ else ""
            jid = f"job{ji}{suffix}"
            ids = [f"job{ji}{suffix}-{i}" for i in range(len(nodes))]
        first.setdefault(ji, (jid, ids))
        evs = job_to_pv(nodes, jid, ids, base0 + _dt.timedelta(seconds=pos))
        if er is not None:
            er.shuffle(evs)
        pv.append(evs)
    return pv


def hash_order_signature(names, uuid_seed: int) -> str:
    """How this interpreter + uuid stream orders sets: iteration order of the
    set of event names and of a set of objects hashed by the first uuids the
    run will draw (computed from a *copy* of the stream)."""
    r = random.Random(uuid_seed)
    us = [str(_uuid.UUID(int=r.getrandbits(128), version=4))
          for _ in range(min(8, max(2, len(names))))]
    a = list(set(sorted(names)))
    b = list(set(us))
    return hashlib.sha256(
        ("|".join(a) + "#" + "|".join(str(us.index(x)) for x in b)).encode()
    ).hexdigest()[:12]


# ---------------------------------------------------------------------------
# the simulated learner process
# ---------------------------------------------------------------------------
def _child_learn(unit: dict) -> dict:
    core.silence_child_output()
    ast = unit.get("ast") or gen_defs.load_workload(unit["wid"])
    mult: dict = {}
    for n in puml_sem.event_name_list(ast):
        mult[n] = mult.get(n, 0) + 1
    mon = LoopMonitor(mult)
    sm = seams_mod.Seams(
        uuid_seed=unit["uuid_seed"],
        clock_origin_s=unit.get("clock_origin_s", 1704067200),
        clock_tick_us=unit.get("clock_tick_us", 1000),
        step_budget=unit.get("step_budget", STEP_BUDGET),
        fs_seed=unit.get("fs_seed", 0),
    )
    seams_mod.install(sm, detect_loops_monitor=mon)
    from tel2puml.pv_to_puml.pv_to_puml import pv_to_puml_string

    kin = unit.get("kmax_in", 2)
    rec: dict = {"wid": unit.get("wid"), "sched": unit.get("sched")}
    try:
        src2 = []
        for j in puml_sem.executions(ast, kmax=2, cap=JOB_CAP * 50):
            src2.append(j)
            if len(src2) > JOB_CAP:
                rec["status"] = "toobig"
                return rec
    except puml_sem.TooMany:
        rec["status"] = "toobig"
        return rec
    except puml_sem.Unsupported as e:
        rec["status"] = "unsupported"
        rec["why"] = str(e)
        return rec
    sub_k = gen_defs.split_wid(unit.get("wid") or "")[1]
    if sub_k is not None and len(src2) > 1:
        # the workload *is* a fixed sub-sample of the executions: the same
        # job subset under every schedule (partial evidence)
        rs = random.Random(core.grid("subset", unit["wid"]))
        k = rs.randint(max(1, len(src2) // 3), len(src2) - 1)
        src2 = [src2[i] for i in sorted(rs.sample(range(len(src2)), k))]
        kin = 2
    src_jobs = list(src2)
    if kin > 2:
        have = {puml_sem.canon(j) for j in src_jobs}
        try:
            for j in puml_sem.executions(ast, kmax=kin, cap=JOB_CAP * 50):
                c = puml_sem.canon(j)
                if c not in have:
                    have.add(c)
                    src_jobs.append(j)
                if len(src_jobs) > JOB_CAP * 3:
                    break
        except puml_sem.TooMany:
            pass
    rec["n_src2"] = len(src2)
    rec["n_src"] = len(src_jobs)
    present = dict(unit["present"])
    if present.get("order") is None:
        if present.get("derive"):
            from . import grid

            present["order"] = grid.derive_order(
                len(src2), len(src_jobs), present["derive"]
            )
        else:
            present["order"] = list(range(len(src2)))
    present["order"] = [i for i in present["order"] if i < len(src_jobs)]
    present.pop("derive", None)
    rec["present"] = present  # explicit: what a replay file records
    pv = build_delivery(src_jobs, present)
    delivered_idx = sorted(set(present["order"]))
    rec["n_delivered"] = len(pv)
    rec["complete"] = sub_k is None and set(range(len(src2))) <= set(
        delivered_idx) and all(i < len(src2) for i in delivered_idx)
    names_in = sorted({e["eventType"] for job in pv for e in job})
    rec["names_in"] = names_in
    rec["hash_sig"] = hash_order_signature(names_in, unit["uuid_seed"])
    rec["features"] = {
        "and": puml_sem.count_kind(ast, ("and",)),
        "or": puml_sem.count_kind(ast, ("or",)),
        "xor": puml_sem.count_kind(ast, ("xor",)),
        "loop": puml_sem.count_kind(ast, ("loop",)),
        "break": puml_sem.count_kind(ast, ("break",)),
        "kill": puml_sem.count_kind(ast, ("kill",)),
        "events": len(puml_sem.event_name_list(ast)),
    }
    import sys

    # the code under test runs under the interpreter's default recursion
    # limit (puml_sem raises it for the reference model's own recursion)
    sys.setrecursionlimit(1000)
    try:
        if unit.get("via_cli"):
            text = learn_through_cli(pv)
            rec["fs_permuted"] = sm.fs_permuted
        else:
            text = pv_to_puml_string(pv, puml_name="x")
        rec["status"] = "ok"
    except SystemExit:
        # the CLI handler turned an exception into exit(1)
        rec["status"] = "exc"
        rec["exc"] = "CLI-exit:" + str(_CLI_ERR.get("error"))
        text = None
    except seams_mod.StepBudgetExceeded:
        rec["status"] = "no-termination"
        text = None
    except RecursionError:
        rec["status"] = "exc"
        rec["exc"] = "RecursionError"
        text = None
    except Exception as e:
        rec["status"] = "exc"
        rec["exc"] = type(e).__name__ + ":" + str(e)[:120]
        text = None
    sys.setrecursionlimit(20000)
    rec["steps"] = sm.steps
    rec["uuid_calls"] = sm.uuid_calls
    rec["clock_calls"] = sm.clock_calls
    rec["sim_ns"] = sm.simulated_ns
    rec["c07"] = mon.violations
    rec["c07_calls"] = mon.calls
    rec["c07_loops"] = mon.loops
    rec["c07_depth"] = mon.max_depth
    rec["nesting_sig"] = core.digest(mon.nesting_sig)
    if text is None:
        return rec
    rec["text"] = text
    analyse_text(rec, text, names_in, src_jobs, src2, delivered_idx,
                 kin, want=unit.get("want", ("c01", "c02", "c05")))
    return rec


_CLI_ERR: dict = {}


def learn_through_cli(pv) -> str:
    """Deliver the jobs as files in a folder and learn them with the real
    `pv2puml -fp <folder> -jn x` handler (listing order is seeded)."""
    import json
    import os
    import shutil
    import tempfile

    import tel2puml.__main__ as mn

    real_he = mn.handle_exception

    def he_spy(e, *a, **k):
        _CLI_ERR["error"] = type(e).__name__
        if isinstance(e, (seams_mod.StepBudgetExceeded, RecursionError)):
            raise e
        return real_he(e, *a, **k)

    mn.handle_exception = he_spy
    tmp = tempfile.mkdtemp(prefix="verif-lcli-", dir="/dev/shm"
                           if os.path.isdir("/dev/shm") else None)
    try:
        d = os.path.join(tmp, "jobs")
        os.makedirs(d)
        for i, job in enumerate(pv):
            with open(os.path.join(d, f"job_{i:04d}.json"), "w") as f:
                json.dump(job, f)
        out = os.path.join(tmp, "out")
        mn.main_handler(
            {"command": "pv2puml", "job_name": "x", "group_by_job": False,
             "mapping_config_file": None, "input_puml_models": [],
             "output_puml_models": False, "output_file_directory": out,
             "debug": False, "folder_path": d, "file_paths": []},
            mn.ERROR_MESSAGES)
        return open(os.path.join(out, "x.puml")).read()
    finally:
        shutil.rmtree(tmp, ignore_errors=True)


def analyse_text(rec, text, names_in, src_jobs, src2, delivered_idx, kin,
                 want):
    rec["text_sha"] = hashlib.sha256(text.encode()).hexdigest()[:16]
    # C05
    rec["leaks"] = puml_sem.placeholder_leaks(text)
    try:
        puml_sem.parse_strict(text)
        rec["strict"] = None
    except puml_sem.StrictError as e:
        rec["strict"] = [e.cls, e.msg]
    try:
        _, ast2 = puml_sem.parse(text)
        rec["parse"] = "ok"
    except puml_sem.ParseError as e:
        rec["parse"] = "unparseable"
        rec["parse_err"] = str(e)[:200]
        return
    out_names = puml_sem.event_name_list(ast2)
    rec["names_missing"] = sorted(set(names_in) - set(out_names))
    rec["names_extra"] = sorted(set(out_names) - set(names_in))
    if not ({"c01", "c02", "lang"} & set(want)):
        return
    # language of the emitted diagram
    try:
        lang: dict = {}
        undecided = False
        for j in puml_sem.executions(ast2, kmax=kin, cap=LANG_CAP * 4):
            lang.setdefault(puml_sem.canon(j), j)
            if len(lang) > LANG_CAP:
                undecided = True
                break
    except puml_sem.TooMany:
        undecided = True
    except puml_sem.Unsupported as e:
        rec["lang"] = None
        rec["lang_unsupported"] = str(e)
        rec["c01_rejected"] = None
        rec["c02_extra"] = None
        return
    if undecided:
        rec["lang"] = None
        rec["undecided"] = True
        return
    rec["lang"] = puml_sem.lang_digest(set(lang))
    rec["n_lang"] = len(lang)
    rej = [i for i in delivered_idx
           if puml_sem.canon(src_jobs[i]) not in lang]
    rec["c01_rejected"] = rej
    if rec.get("complete") and kin == 2:
        src_set = {puml_sem.canon(j) for j in src2}
        extra = [c for c in lang if c not in src_set]
        rec["c02_extra"] = len(extra)
        if extra:
            j = lang[sorted(extra)[0]]
            rec["c02_sample"] = [[n[1], list(n[2])] for n in j]
    else:
        rec["c02_extra"] = None


def run_unit(unit: dict) -> dict:
    import time as _t

    t0 = _t.time()
    r = _run_unit(unit)
    if isinstance(r, dict):
        r["wall_s"] = round(_t.time() - t0, 2)
    return r


def _run_unit(unit: dict) -> dict:
    kind = unit.get("kind", "learn")
    fn = {"learn": _child_learn}.get(kind)
    if fn is None:
        from . import world_learner_ext

        fn = world_learner_ext.CHILD_FUNCS[kind]
    try:
        st, val = core.run_forked(fn, unit, wall_limit=unit.get("wall", 900))
    except core.ChildTimeout:
        return {"status": "harness-timeout", "wid": unit.get("wid"),
                "sched": unit.get("sched")}
    if st == "ok":
        return val
    return {"status": "harness-child-" + st, "detail": val,
            "wid": unit.get("wid"), "sched": unit.get("sched")}
