"""Workload universe U of world L (DESIGN.md 3.1 / 2.9).

U = corpus (63 files of /repo/end-to-end-pumls) + gen(i) for 0 <= i < N.
gen(i) is a deterministic generator of definitions of fragment F with a fixed
internal seed per index (independent of VERIF_SEED): VERIF_SEED only selects
which members of U a run visits.
"""
from __future__ import annotations

import glob
import hashlib
import os
import random

from . import puml_sem

REPO = os.environ.get("VERIF_REPO", "/repo")
GEN_SALT = "otel2puml-verif-gen-v1"
GENY_RICH_FROM = 400     # geny:i for i >= 400: forks next to break branches


class Gen:
    def __init__(self, rng, max_depth=3, allow_loops=True, allow_kill=True,
                 max_events=14, p_loop=0.3, loop_in_break=False,
                 fork_in_break_alt=False):
        self.rng = rng
        self.n = 0
        self.max_depth = max_depth
        self.allow_loops = allow_loops
        self.allow_kill = allow_kill
        self.max_events = max_events
        self.p_loop = p_loop
        self.loop_in_break = loop_in_break
        # geny, indices >= GENY_RICH_FROM: the alternative to a break branch
        # may be / begin with a fork (the event that decides the break also
        # forks inside the loop)
        self.fork_in_break_alt = fork_in_break_alt

    def ev(self):
        self.n += 1
        return ["ev", "E%d" % self.n]

    def budget(self):
        return self.n < self.max_events

    def seq(self, depth, in_loop, loop_nested, top=False, fork_depth=0,
            want_break_xor=False):
        """sequence: begins with event; blocks separated by events"""
        r = self.rng
        items = [self.ev()]
        nblocks = r.choice([0, 1, 1, 2]) if self.budget() else 0
        if top:
            nblocks = max(1, nblocks)
        placed_break = False
        for b in range(nblocks):
            if not self.budget():
                break
            kind = r.random()
            if want_break_xor and not placed_break:
                items.append(self.break_xor(depth, loop_nested))
                placed_break = True
            elif (self.allow_loops and kind < self.p_loop
                  and depth < self.max_depth):
                items.append(
                    self.loop(depth + 1, nested=in_loop, fork_depth=fork_depth)
                )
            elif fork_depth < self.max_depth:
                items.append(
                    self.fork(depth, in_loop, loop_nested, fork_depth + 1, top)
                )
            else:
                continue
            # separator / trailing event
            if b < nblocks - 1 or r.random() < 0.6:
                items.append(self.ev())
        if want_break_xor and not placed_break:
            items.append(self.break_xor(depth, loop_nested))
            if r.random() < 0.6:
                items.append(self.ev())
        elif r.random() < 0.5 and items[-1][0] == "ev" and self.budget():
            items.append(self.ev())
        return items

    def fork(self, depth, in_loop, loop_nested, fork_depth, top):
        r = self.rng
        op = r.choice(["and", "or", "xor"])
        nb = r.choice([2, 2, 3])
        brs = [
            self.seq(depth, in_loop, loop_nested, fork_depth=fork_depth)
            if r.random() < 0.5 and self.budget()
            else [self.ev()] + ([self.ev()] if r.random() < 0.4 else [])
            for _ in range(nb)
        ]
        if (self.allow_kill and op in ("and", "or") and fork_depth == 1
                and not in_loop and r.random() < 0.3):
            # detach at end of one branch of an outermost AND/OR fork
            i = r.randrange(nb)
            if brs[i][-1][0] == "ev":
                brs[i] = brs[i] + [["kill"]]
        return [op, brs]

    def loop(self, depth, nested, fork_depth):
        r = self.rng
        want_break = r.random() < (0.8 if self.fork_in_break_alt else 0.4)
        body = self.seq(depth, True, nested, fork_depth=fork_depth,
                        want_break_xor=want_break)
        return ["loop", body]

    def break_xor(self, depth, loop_nested):
        r = self.rng
        nb = r.choice([2, 3])
        brs = []
        nbreak = 1 if nb == 2 else r.choice([1, 2])
        for i in range(nb):
            if i < nbreak:
                if self.loop_in_break and r.random() < 0.5:
                    # extension (genx only): the break branch contains a loop
                    br = [self.ev(),
                          ["loop", [self.ev()] + (
                              [self.ev()] if r.random() < 0.5 else [])]]
                    if r.random() < 0.5:
                        br.append(self.ev())
                    br.append(["break"])
                elif loop_nested:
                    br = [self.ev(), ["break"]]
                else:
                    br = ([self.ev()]
                          + ([self.ev()] if r.random() < 0.3 else [])
                          + [["break"]])
            elif self.fork_in_break_alt and r.random() < 0.6:
                lead = [] if r.random() < 0.5 else [self.ev()]
                br = lead + [self.fork(depth, True, loop_nested, 2, False)] \
                    + ([self.ev()] if r.random() < 0.5 else [])
            else:
                br = [self.ev()] + ([self.ev()] if r.random() < 0.3 else [])
            brs.append(br)
        r.shuffle(brs)
        return ["xor", brs]


def gen_params(i: int) -> dict:
    """Swarm-style: size and feature knobs vary with the index."""
    h = int.from_bytes(
        hashlib.sha256(f"{GEN_SALT}|params|{i}".encode()).digest()[:8], "big"
    )
    return dict(
        max_events=[6, 9, 12, 14, 16][h % 5],
        allow_loops=(h >> 8) % 4 != 0,
        allow_kill=(h >> 12) % 3 != 0,
        max_depth=[2, 3, 3][(h >> 16) % 3],
        p_loop=[0.2, 0.3, 0.45][(h >> 20) % 3],
    )


def gen_def(i: int):
    seed = int.from_bytes(
        hashlib.sha256(f"{GEN_SALT}|def|{i}".encode()).digest()[:8], "big"
    )
    rng = random.Random(seed)
    g = Gen(rng, **gen_params(i))
    return g.seq(0, False, False, top=True)


def genx_def(i: int):
    """Extension family used by C05/C07 only (C05 quantifies over "jobs with
    several start events and loops that end in a fork"): like gen(i) but the
    definition may start with a fork (several start events) and a break
    branch may contain a loop."""
    seed = int.from_bytes(
        hashlib.sha256(f"{GEN_SALT}|defx|{i}".encode()).digest()[:8], "big"
    )
    rng = random.Random(seed)
    pr = gen_params(i + 10**6)
    pr["allow_loops"] = True
    g = Gen(rng, loop_in_break=True, **pr)
    body = g.seq(0, False, False, top=True)
    if rng.random() < 0.5:
        # several start events: the first item is a fork of plain branches
        op = rng.choice(["and", "or", "xor"])
        brs = [[g.ev()] + ([g.ev()] if rng.random() < 0.4 else [])
               for _ in range(rng.choice([2, 2, 3]))]
        body = [[op, brs]] + body
    return body


def _relax(items, rng, top):
    """F relaxed: drop (seeded) the event that separates two consecutive
    blocks and the event a fork branch / loop body begins with when a block
    follows it."""
    out = []
    for it in items:
        if it[0] in ("and", "or", "xor"):
            it = [it[0], [_relax(b, rng, False) for b in it[1]]]
        elif it[0] == "loop":
            it = ["loop", _relax(it[1], rng, False)]
        out.append(it)
    blocks = ("and", "or", "xor", "loop")
    res = []
    for k, it in enumerate(out):
        nxt = out[k + 1][0] if k + 1 < len(out) else None
        prv = res[-1][0] if res else None
        if it[0] == "ev" and nxt in blocks:
            if prv in blocks and rng.random() < 0.5:
                continue          # two blocks back to back
            if prv is None and not top and rng.random() < 0.4:
                continue          # branch / body begins with a block
        res.append(it)
    return res


def geny_def(i: int):
    """Second extension family (C03, C05, C07 only): fragment F with the
    separation rules relaxed - blocks back to back, fork branches and loop
    bodies that begin with a block (the corpus has such shapes: bunched
    forks).  Outside the literal quantifier of C01/C02."""
    seed = int.from_bytes(
        hashlib.sha256(f"{GEN_SALT}|defy|{i}".encode()).digest()[:8], "big"
    )
    pr = gen_params(i + 2 * 10**6)
    if i >= GENY_RICH_FROM:
        pr.update(allow_loops=True, p_loop=0.6, fork_in_break_alt=True)
    relaxed = None
    for attempt in range(12):
        rng = random.Random(seed + attempt)
        g = Gen(rng, **pr)
        body = g.seq(0, False, False, top=True)
        relaxed = _relax(body, rng, True)
        if i >= GENY_RICH_FROM:
            if puml_sem.count_kind(relaxed, ("break",)):
                break
        elif relaxed != body:
            break
    return relaxed


# ---------------------------------------------------------------------------
# structural exclusion rules (DESIGN.md 3.1 / section 9): classes of
# definitions on which the pinned tree genuinely violates C01/C02/C05; one
# representative of each is pinned in known_findings.json.
# ---------------------------------------------------------------------------
def _has_break(items):
    for it in items:
        if it[0] == "break":
            return True
        if it[0] in ("and", "or", "xor") and any(
            _has_break(b) for b in it[1]
        ):
            return True
        # do not descend into nested loops: their breaks belong to them
    return False


def _ends_in_fork(items):
    return bool(items) and items[-1][0] in ("and", "or", "xor")


def _fork_branch_ends_in_block(fork):
    return any(
        b and b[-1][0] in ("and", "or", "xor", "loop") for b in fork[1]
    )


def excluded_by(items, top=True, tail=True) -> str | None:
    """Return the name of the first exclusion rule that applies, or None.
    `tail`: this sequence is in tail position of the whole definition
    (nothing can follow it at any level)."""
    for idx, it in enumerate(items):
        last = idx == len(items) - 1
        if it[0] == "loop":
            body = it[1]
            if _has_break(body) and last:
                return "R1"  # break-loop must be followed by an event
            if _ends_in_fork(body) and _fork_branch_ends_in_block(body[-1]):
                return "R2"
            if (last and tail and _ends_in_fork(body)
                    and body[-1][0] in ("or", "and")):
                return "R3"  # trailing loop (no exit event) ending in a fork
            r = excluded_by(body, False, False)
            if r:
                return r
        elif it[0] in ("and", "or", "xor"):
            for b in it[1]:
                r = excluded_by(b, False, tail and last)
                if r:
                    return r
    return None


# ---------------------------------------------------------------------------
# corpus
# ---------------------------------------------------------------------------
def corpus_files() -> list[str]:
    root = os.path.join(REPO, "end-to-end-pumls")
    out = []
    for f in sorted(glob.glob(os.path.join(root, "**", "*.puml"),
                              recursive=True)):
        txt = open(f).read()
        if "BCNT" in txt:
            continue
        if os.path.basename(f).startswith("multiple_same_event_AND"):
            continue
        out.append(os.path.relpath(f, root))
    return out


def fam_def(n: int, i: int):
    """Definition S; <gate tree i over n events as directly nested forks>; M
    (the learner-level view of one C06 reference tree: every outcome set of
    the tree is one job S -> set -> M)."""
    from . import gate_sem

    t = gate_sem.all_trees(n, 3)[i]

    def conv(t):
        if t[0] == "ev":
            return [["ev", t[1]]]
        return [[t[0].lower(), [conv(c) for c in t[1]]]]

    return [["ev", "S"]] + conv(t) + [["ev", "M"]]


def split_wid(wid: str):
    """'base#s<k>' -> (base, k) ; 'base' -> (base, None).  A '#s<k>' suffix
    denotes the k-th fixed sub-sample of the executions of base."""
    base, sep, k = wid.partition("#s")
    return base, (int(k) if sep else None)


def load_workload(wid: str):
    """wid = 'gen:<i>' | 'corpus:<relpath>' | 'fam:<n>:<i>', optionally
    followed by '#s<k>'.  Returns the AST of the base definition."""
    wid = split_wid(wid)[0]
    kind, _, rest = wid.partition(":")
    if kind == "fam":
        n, i = rest.split(":")
        return fam_def(int(n), int(i))
    if kind == "gen":
        return gen_def(int(rest))
    if kind == "genx":
        return genx_def(int(rest))
    if kind == "geny":
        return geny_def(int(rest))
    if kind == "corpus":
        path = os.path.join(REPO, "end-to-end-pumls", rest)
        return puml_sem.parse(open(path).read())[1]
    raise ValueError(wid)
