from .event_solution import EventSolution
class GraphSolution:
    def __init__(self):
        self.events = {}
        self.start_events = {}
        self.end_events = {}
        self.count = 0
    def add_event(self, ev):
        self.count += 1
        key = self.count
        self.events[key] = ev
        if not ev.previous_events:
            self.start_events[key] = ev
        if not ev.post_events:
            self.end_events[key] = ev
    @classmethod
    def from_event_list(cls, event_list):
        event_list = list(event_list)
        sols = {}
        for e in event_list:
            sols[e["eventId"]] = EventSolution(meta_data={"EventType": e["eventType"]})
        for e in event_list:
            prev = e.get("previousEventIds", [])
            if isinstance(prev, str):
                prev = [prev]
            for p in prev:
                sols[e["eventId"]].add_prev_event(sols[p])
        for s in sols.values():
            s.add_to_previous_events()
        g = cls()
        for s in sols.values():
            g.add_event(s)
        return g
