class EventSolution:
    def __init__(self, meta_data=None, **kw):
        self.meta_data = meta_data or {}
        self.post_events = []
        self.previous_events = []
    def add_post_event(self, ev):
        self.post_events.append(ev)
    def add_prev_event(self, ev):
        self.previous_events.append(ev)
    def add_to_post_events(self):
        for ev in self.post_events:
            ev.add_prev_event(self)
    def add_to_previous_events(self):
        for ev in self.previous_events:
            ev.add_post_event(self)
