"""World L, component level: gate inference (C06) run inside the simulator.
`calculate_logic_gates` reads uuid4 and datetime.now() and iterates
hash-ordered sets, so its answer for one family of successor sets is
schedule dependent in principle; every tree is evaluated under seeded
(uuid stream, clock, insertion order) in a worker with a fixed hash seed."""
from __future__ import annotations

import hashlib
import random

from . import core, gate_sem, seams as seams_mod

_TREES: dict = {}


def preload():
    seams_mod.quiet()
    import tel2puml.events  # noqa: F401
    import tel2puml.logic_detection  # noqa: F401
    import tel2puml.pv_to_puml.pv_to_puml  # noqa: F401  (seams.install)
    import tel2puml.__main__  # noqa: F401


def trees_of(n: int):
    if n not in _TREES:
        _TREES[n] = gate_sem.all_trees(n, 3)
    return _TREES[n]


def fam_digest(f) -> str:
    return hashlib.sha256(
        "|".join(sorted(",".join(sorted(x)) for x in f)).encode()
    ).hexdigest()[:12]


WORDS = ["read", "write", "open", "close", "send", "recv"]


def naming(kind: int, n: int, seed: int) -> dict:
    """Event names for the leaves A, B, ...: plain letters, ordinary words,
    or an adversarial scheme in which some names are joins / prefixes of
    others (`read`, `write`, `read_write`, `read write`, `readwrite`,
    `read,write`): all are distinct event names."""
    letters = [chr(65 + i) for i in range(n)]
    if kind % 4 in (0, 3):
        return {x: x for x in letters}
    r = random.Random(seed)
    if kind % 4 == 1:
        w = r.sample(WORDS, n)
        return dict(zip(letters, w))
    a, b = r.sample(WORDS, 2)
    pool = [a, b] + [a + sep + b for sep in ("_", " ", "", ",", "-")] + [
        b + "_" + a, a + "_" + a]
    names = [a, b] + r.sample(pool[2:], n - 2) if n > 2 else [a, a + "_" + a]
    r.shuffle(names)
    return dict(zip(letters, names))


def rename(t, m):
    if t[0] == "ev":
        return ["ev", m[t[1]]]
    return [t[0], [rename(c, m) for c in t[1]]]


def _child(unit: dict) -> dict:
    core.silence_child_output()
    sm = seams_mod.Seams(uuid_seed=0)
    seams_mod.install(sm)
    from tel2puml.events import EventSet
    from tel2puml.logic_detection import calculate_logic_gates

    out = []
    sim_ns = 0
    uuid_calls = 0
    explicit = unit.get("trees")
    items = (explicit if explicit is not None
             else [(i, trees_of(unit["n"])[i]) for i in unit["indices"]])
    for i, t in items:
        inv = None
        if unit.get("naming"):
            n_ev = len({x for f_ in gate_sem.fam(t) for x in f_})
            m = naming(unit["naming"], n_ev,
                       core.derive(unit["order_seed"], "names", i))
            t = rename(t, m)
            inv = {v: k for k, v in m.items()}
        sm.uuid_rng = random.Random(core.derive(unit["uuid_seed"], "tree", i))
        sm.clock_calls = 0
        sm.uuid_calls = 0
        f = gate_sem.fam(t)
        order = sorted(sorted(x) for x in f)
        random.Random(core.derive(unit["order_seed"], "tree", i)).shuffle(
            order)
        es = set()
        for x in order:
            es.add(EventSet(list(x)))
        rec = {"i": i, "n_sets": len(f)}
        if unit.get("prelude"):
            # history inside one process: the same family with a count of 2
            # on one event type per set is inferred first (its result is
            # discarded); the answer for the plain family must not depend on
            # what the process computed before
            try:
                pes = set()
                for x in order:
                    xs = sorted(x)
                    pes.add(EventSet(xs + [xs[0]]))
                calculate_logic_gates(pes)
            except Exception:
                pass
            sm.uuid_rng = random.Random(
                core.derive(unit["uuid_seed"], "tree", i))
            sm.clock_calls = 0
            sm.uuid_calls = 0
        try:
            pt = calculate_logic_gates(es)
            g = gate_sem.pfam(pt)
            rec["inferred"] = gate_sem.show_pt(pt)
            if inv:
                # report over the letters of the reference tree so that
                # schedules with different namings stay comparable
                rec["names"] = sorted(inv)
                g = {frozenset(inv.get(x, x) for x in s_) for s_ in g}
                f = {frozenset(inv.get(x, x) for x in s_) for s_ in f}
            rec["admitted"] = fam_digest(g)
            rec["sound"] = f <= g
            rec["exact"] = (f == g)
            if not rec["sound"]:
                rec["missing"] = sorted(
                    ",".join(sorted(x)) for x in f - g)[:6]
            if f != g:
                rec["extra"] = sorted(
                    ",".join(sorted(x)) for x in g - f)[:6]
        except gate_sem.Uninterpretable as e:
            rec["error"] = "uninterpretable:" + str(e)
        except Exception as e:
            rec["error"] = "exception:" + type(e).__name__ + ":" + str(e)[:80]
        sim_ns += sm.simulated_ns
        uuid_calls += sm.uuid_calls
        out.append(rec)
    return {"recs": out, "sim_ns": sim_ns, "uuid_calls": uuid_calls}


def run_unit(unit: dict) -> dict:
    try:
        st, val = core.run_forked(_child, unit, wall_limit=unit.get("wall",
                                                                    1800))
    except core.ChildTimeout:
        return {"status": "harness-timeout"}
    if st == "ok":
        val["status"] = "ok"
        return val
    return {"status": "harness-child-" + st, "detail": val}
