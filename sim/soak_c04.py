"""Build-time soak of the whole C04 grid (not a registered check)."""
import json
import sys
import time

from . import core, check_c04 as c4

def main():
    out = sys.argv[1]
    nproc = int(sys.argv[2]) if len(sys.argv) > 2 else None
    units = []
    for w in c4.universe():
        n = c4.n_jobs_of(w)
        if n is None or n < 2:
            continue
        for s in c4.C04_SIDS:
            units += c4.grid_units(w, s, n)
    print(len(units), "units", flush=True)
    t0 = time.time()

    def prog(d, n):
        if d % 1000 == 0:
            print(f"  {d}/{n} {time.time()-t0:.0f}s", flush=True)

    res = core.run_units("world_learner", units, nproc=nproc, progress=prog)
    bad = {}
    stats = {}
    with open(out, "w") as f:
        for u, r in zip(units, res):
            cls = c4.violation_classes(r)
            st = r.get("status")
            k = "|".join(cls) or st
            stats[k] = stats.get(k, 0) + 1
            f.write(json.dumps({"wid": u["wid"], "sched": u["sched"],
                                "cuts": r.get("cuts"), "cls": cls,
                                "status": st,
                                "ref_status": r.get("ref_status"),
                                "step_status": r.get("step_status")}) + "\n")
            if cls or (st or "").startswith("harness"):
                bad.setdefault(u["wid"], {}).setdefault(k, []).append(
                    [u["sched"], r.get("cuts")])
    print(json.dumps(stats, indent=1))
    for w, d in sorted(bad.items()):
        print(w, {k: (len(v), v[:4]) for k, v in d.items()})

if __name__ == "__main__":
    main()
