"""Build-time soak of the whole store scenario grid (not a registered check).
usage: python -m sim.soak_store out.jsonl [nproc] [props]"""
import json
import sys
import time

from . import core, checks_store as cs, world_store as ws


def main():
    out = sys.argv[1]
    nproc = int(sys.argv[2]) if len(sys.argv) > 2 else None
    props = sys.argv[3].split(",") if len(sys.argv) > 3 else [
        "C09", "C10", "C11", "C12"]
    units = []
    for prop in props:
        for i in range(cs.N_SCEN):
            units.append({"kind": "store", "prop": prop, "idx": i,
                          "hash_class": cs.hash_class_of(i),
                          "differential": prop == "C11"})
            if prop == "C09":
                scen = ws.gen_scenario(prop, i)
                for k in (1, 2):
                    units.append({"kind": "store", "prop": prop, "idx": i,
                                  "variant": k,
                                  "scenario": cs.variant(scen, k),
                                  "hash_class": cs.hash_class_of(i + k)})
    t0 = time.time()

    def prog(d, n):
        if d % 2000 == 0:
            print(f"  {d}/{n} {time.time()-t0:.0f}s", flush=True)

    res = core.run_units("world_store", units, nproc=nproc, progress=prog)
    stats = {}
    with open(out, "w") as f:
        for u, r in zip(units, res):
            if r.get("status") != "ok":
                cls = ["HARNESS:" + str(r.get("status"))]
            else:
                cls = [e[0] for e in r["errs"].get(u["prop"], [])]
            k = u["prop"] + ":" + ("|".join(sorted(set(cls))) or "ok")
            stats[k] = stats.get(k, 0) + 1
            if cls:
                f.write(json.dumps({"prop": u["prop"], "idx": u["idx"],
                                    "variant": u.get("variant"), "cls": cls,
                                    "errs": r.get("errs", {}).get(u["prop"])
                                    }) + "\n")
                print(u["prop"], u["idx"], u.get("variant"), cls,
                      str(r.get("errs", {}).get(u["prop"]))[:300],
                      flush=True)
    print(json.dumps(stats, indent=1))


if __name__ == "__main__":
    main()
