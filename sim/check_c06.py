"""C06: gate inference explains all observed successor sets; exact without
mixed OR.  Workload universe = every gate tree over <= 5 (thorough 6) events,
depth <= 3, alternating operators (enumerated exhaustively); what the seed
samples is the *schedule* (hash class, uuid stream, clock, insertion order)."""
from __future__ import annotations

import json
import random

from . import core, gate_sem, grid
from .driver import CheckRun

PROP = "C06"
WORLD = "world_gates"
N_SIDS = 64
BATCH = 120

ASSUMPTIONS = [
    "gate semantics of sim/gate_sem.py: XOR = union, AND = all children "
    "combined, OR = every non-empty subset of children combined; pm4py "
    "operators +,X,O,-> and tau interpreted the same way",
    "tree universe is enumerated exhaustively for the tier's size bound; "
    "schedules come from the fixed pre-soaked grid of 64 schedule ids",
]


def sched(sid: int) -> dict:
    return {"hash_class": sid % grid.N_HASH_CLASSES,
            "uuid_seed": core.grid("c06-uuid", sid),
            "order_seed": core.grid("c06-order", sid), "sched": sid,
            # event names: letters, words, or names that are joins/prefixes
            # of each other (sid % 4 == 2)
            "naming": sid % 4,
            # odd schedule ids: every inference is preceded, in the same
            # process, by the inference of the counted variant of the family
            "prelude": sid % 2 == 1}


def main(argv=None):
    run = CheckRun(PROP, argv)
    if run.replay:
        return replay(run)
    nmax = 5 if run.tier == "quick" else 6
    nsched = max(1, int((4 if run.tier == "quick" else 12) * run.scale))
    r = random.Random(core.derive(run.seed, PROP, "sids"))
    # distinct hash classes first
    pool_sids = list(range(N_SIDS))
    r.shuffle(pool_sids)
    # distinct hash classes first, then the remaining schedule ids
    first, rest, seen_cls = [], [], set()
    for s in pool_sids:
        if s % grid.N_HASH_CLASSES not in seen_cls:
            seen_cls.add(s % grid.N_HASH_CLASSES)
            first.append(s)
        else:
            rest.append(s)
    sids = (first + rest)[:nsched]
    if len(sids) >= 2 and not any(s % 2 for s in sids):
        sids[-1] = next(s for s in first + rest if s % 2)
    if len(sids) >= 2 and all(s % 2 for s in sids):
        sids[-1] = next(s for s in first + rest if not s % 2)
    units = []
    ntrees = {}
    for n in range(2, nmax + 1):
        ts = gate_sem.all_trees(n, 3)
        ntrees[n] = len(ts)
        # the 27 099 six-event trees are run under half of the schedules
        for s in (sids if n < 6 else sids[: max(2, len(sids) // 2)]):
            for lo in range(0, len(ts), BATCH):
                u = sched(s)
                if n >= 6:
                    u["naming"] = 0   # six-event trees: letters only (the
                    #                   naming grid is soaked for n <= 5)
                u.update(kind="c06", n=n,
                         indices=list(range(lo, min(lo + BATCH, len(ts)))))
                units.append(u)
    with core.Pool(WORLD, run.nproc) as pool:
        results = pool.map(units)
    evals = 0
    sim_ns = 0
    exact_class = 0
    per_tree: dict = {}
    inferred_forms: dict = {}
    samples = []
    for u, res in zip(units, results):
        if res.get("status") != "ok":
            run.harness_error(f"n={u['n']} sid={u['sched']}: "
                              f"{res.get('status')}")
            continue
        sim_ns += res["sim_ns"]
        ts = gate_sem.all_trees(u["n"], 3)
        for rec in res["recs"]:
            evals += 1
            t = ts[rec["i"]]
            name = gate_sem.show(t)
            cls = None
            if "error" in rec:
                cls = rec["error"].split(":")[0]
            elif not rec["sound"]:
                cls = "unsound"
            elif gate_sem.in_exact_class(t) and not rec["exact"]:
                cls = "inexact"
            if gate_sem.in_exact_class(t):
                exact_class += 1
            per_tree.setdefault((u["n"], rec["i"]), set()).add(
                rec.get("admitted") or rec.get("error"))
            inferred_forms.setdefault((u["n"], rec["i"]), set()).add(
                rec.get("inferred"))
            if cls:
                report(run, t, u, rec, cls)
            if len(samples) < 4 and u["n"] >= 4 and rec["i"] % 97 == 5:
                samples.append({
                    "tree": name, "schedule": u["sched"],
                    "hash_class": u["hash_class"],
                    "family": sorted(",".join(sorted(x))
                                     for x in gate_sem.fam(t)),
                    "inferred": rec.get("inferred"),
                    "sound": rec.get("sound"), "exact": rec.get("exact"),
                    "in_exactness_class": gate_sem.in_exact_class(t)})
    dep = 0
    for (n, i), adm in per_tree.items():
        if len(adm) > 1:
            dep += 1
            t = gate_sem.all_trees(n, 3)[i]
            key = {"tree": gate_sem.show(t),
                   "violation_class": "schedule-dependent"}
            wit = [u for u in units if u["n"] == n and i in u["indices"]]
            run.violation(
                key, f"{key['tree']}: admitted family differs between "
                f"schedules", {"kind": "c06-history", "tree": t,
                               "index": i, "n": n,
                               "units": [dict(w, indices=None,
                                              trees=[[i, t]]) for w in wit],
                               "violation_class": "schedule-dependent"})
    multi_form = sum(1 for v in inferred_forms.values() if len(v) > 1)
    cov = {
        "evaluations": evals,
        "distinct_nontrivial": len(per_tree),
        "rule": "one evaluation = calculate_logic_gates on the full outcome "
                "family of one reference tree under one schedule; distinct = "
                "distinct reference trees; every tree has >= 2 events and one "
                "gate, so all are non-trivial",
        "samples": samples,
        "exhaustive": True,
        "trees_per_event_count": ntrees,
        "schedules": sids,
        "hash_classes": sorted({s % grid.N_HASH_CLASSES for s in sids}),
        "evaluations_in_exactness_class": exact_class,
        "trees_whose_inferred_tree_text_differs_between_schedules": multi_form,
        "trees_whose_admitted_family_differs_between_schedules": dep,
        "simulated_time_ns": sim_ns,
        "faults_fired": {"hash_class_change": len(
            {s % grid.N_HASH_CLASSES for s in sids}),
            "uuid_stream_change": len(sids),
            "insertion_order_change": len(sids)},
        "seeds": {"VERIF_SEED": run.seed, "grid_salt": core.GRID_SALT},
    }
    run.finish(cov, ASSUMPTIONS)


def report(run, t, u, rec, cls):
    key = {"tree": gate_sem.show(t), "violation_class": cls}
    pay = {"kind": "c06", "violation_class": cls,
           "unit": dict(u, indices=None, trees=[[rec["i"], t]]),
           "tree": t, "record": rec,
           "hash_seed": core.hash_seed_of_class(u["hash_class"])}
    run.violation(key, f"{key['tree']} schedule {u['sched']}: {cls} "
                  f"inferred={rec.get('inferred')} "
                  f"missing={rec.get('missing')} extra={rec.get('extra')}",
                  pay)


def replay(run):
    pay = json.load(open(run.replay))
    with core.Pool(WORLD, 1) as pool:
        if pay["kind"] == "c06-history":
            rs = pool.map(pay["units"])
            adm = {r["recs"][0].get("admitted") for r in rs}
            print(f"# replay admitted={sorted(map(str, adm))}")
            bad = len(adm) > 1
        else:
            r = pool.map([pay["unit"]])[0]
            rec = r["recs"][0]
            t = pay["tree"]
            cls = None
            if "error" in rec:
                cls = rec["error"].split(":")[0]
            elif not rec["sound"]:
                cls = "unsound"
            elif gate_sem.in_exact_class(t) and not rec["exact"]:
                cls = "inexact"
            print(f"# replay class={cls} inferred={rec.get('inferred')} "
                  f"same_record={rec == pay['record']}")
            bad = cls == pay["violation_class"]
    if bad:
        print(f"VIOLATION property={PROP} replay={run.replay}")
        raise SystemExit(1)
    raise SystemExit(0)
