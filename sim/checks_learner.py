"""Checks of world L that share one kind of run: C01, C02, C03, C05, C07.
DESIGN.md section 4."""
from __future__ import annotations

import copy
import json
import random

from . import core, gen_defs, grid, puml_sem
from .driver import CheckRun, scaled

WORLD = "world_learner"

SIZES = {
    # property: {tier: (workloads, schedules per workload)}
    "C01": {"quick": (420, 4), "thorough": (2400, 10)},
    "C02": {"quick": (420, 4), "thorough": (2400, 10)},
    "C05": {"quick": (420, 4), "thorough": (2400, 10)},
    "C07": {"quick": (420, 4), "thorough": (2400, 10)},
    "C03": {"quick": (200, 8), "thorough": (900, 24)},
}

PIN_RUN = 8
PIN_ALL_SIDS = [0, 1, 2, 4]   # schedules used for "fails everywhere" pins

ASSUMPTIONS = [
    "PlantUML execution semantics of sim/puml_sem.py (AND=all branches, OR=any"
    " non-empty subset, XOR=one, loop 1..k, break leaves innermost loop, "
    "detach ends the branch) is the reference model",
    "janus containers are a logic-free stub (sim/janus_stub)",
    "language comparison bounded: loops unrolled <= 2 (3 when the input has a "
    "loop run 3 times), <= 400 source jobs, <= 30000 executions of the emitted"
    " diagram (larger ones are counted as undecided)",
    "workloads and schedules are drawn from the fixed pre-soaked grid "
    "(sim/grid.py); VERIF_SEED selects which grid points are visited",
]


# ---------------------------------------------------------------------------
# universe
# ---------------------------------------------------------------------------
def has_loop(wid: str) -> bool:
    return puml_sem.count_kind(gen_defs.load_workload(wid), ("loop",)) > 0


SUB_PROPS = ("C01", "C03", "C05", "C07")   # properties that also quantify
#                                            over partial samples


def candidate_wids(seed: int, prop: str):
    """Seeded order over the universe U: corpus + non-excluded gen(i), and
    for the properties that quantify over arbitrary job sets the fixed
    sub-sample `#s1` of each of them (every second generated one)."""
    r = random.Random(core.derive(seed, prop, "workloads"))
    corpus = ["corpus:" + f for f in gen_defs.corpus_files()]
    gens = list(range(grid.N_GEN))
    r.shuffle(gens)
    # the corpus is small: always part of the run
    for w in corpus:
        if prop != "C07" or has_loop(w):
            yield w
            if prop in SUB_PROPS:
                yield w + "#s1"
    # extension family genx (several start events, loops inside break
    # branches): C05 names such jobs in its quantifier; C07 explores it too
    mixed = [("gen", i) for i in gens]
    if prop in ("C05", "C07"):
        # one genx definition after every three gen definitions
        gx = list(range(grid.N_GENX))
        r.shuffle(gx)
        gi = iter(gx)
        out = []
        for n, it in enumerate(mixed):
            out.append(it)
            if n % 3 == 2:
                j = next(gi, None)
                if j is not None:
                    out.append(("genx", j))
        mixed = out
    if prop in ("C03", "C05", "C07"):
        # second extension family geny (F with the separation rules relaxed:
        # blocks back to back, branches / loop bodies beginning with a block);
        # complete samples only; one after every five others
        gy = list(range(grid.N_GENY))
        r.shuffle(gy)
        gi = iter(gy)
        out = []
        for n, it in enumerate(mixed):
            out.append(it)
            if n % 5 == 4:
                j = next(gi, None)
                if j is not None:
                    out.append(("geny", j))
        mixed = out
    gens = mixed
    for n, (fam, i) in enumerate(gens):
        if fam == "geny":
            d = gen_defs.geny_def(i)
            if gen_defs.excluded_by(d) and prop != "C07":
                continue
            if prop == "C07" and puml_sem.count_kind(d, ("loop",)) == 0:
                continue
            yield f"geny:{i}"
            continue
        if fam == "genx":
            d = gen_defs.genx_def(i)
            if gen_defs.excluded_by(d) and prop != "C07":
                continue
            if prop == "C07" and puml_sem.count_kind(d, ("loop",)) == 0:
                continue
            yield f"genx:{i}"
            if n % 2 == 0:
                yield f"genx:{i}#s1"
            continue
        d = gen_defs.gen_def(i)
        # R1-R3 exclude classes on which the pinned tree violates C01/C02/
        # C05; loop extraction (C07) holds on them, so C07 explores them too
        if gen_defs.excluded_by(d) and prop != "C07":
            continue
        if prop == "C07" and puml_sem.count_kind(d, ("loop",)) == 0:
            continue
        yield f"gen:{i}"
        if prop in SUB_PROPS and n % 2 == 0:
            yield f"gen:{i}#s1"


def allowed_sids(prop: str) -> list[int]:
    out = []
    for s in range(grid.N_SCHEDULES):
        fl = grid.schedule_flags(s)
        if prop in ("C02", "C03") and (fl["subsample"] or fl["kmax_in"] != 2):
            continue
        out.append(s)
    return out


def pick_sids(prop: str, wid: str, n: int, seed: int) -> list[int]:
    sids = allowed_sids(prop)
    r = random.Random(core.derive(seed, prop, "sids", wid))
    if prop != "C03":
        return sorted(r.sample(sids, min(n, len(sids))))
    # C03: every metamorphic dimension at least once, >= 2 hash classes
    best = None
    for _ in range(30):
        pick = r.sample(sids, min(n, len(sids)))
        fls = [grid.schedule_flags(s) for s in pick]
        cover = sum([
            any(f["perm_jobs"] for f in fls),
            any(f["perm_events"] for f in fls),
            any(f["rename"] for f in fls),
            any(f["shift"] for f in fls),
            any(f["dup"] == "same" for f in fls),
            any(f["dup"] == "renamed" for f in fls),
            any(f["via_cli"] for f in fls),
            len({s % grid.N_HASH_CLASSES for s in pick}) >= min(4, n),
        ])
        if best is None or cover > best[0]:
            best = (cover, pick)
        if cover == 8:
            break
    return sorted(best[1])


# ---------------------------------------------------------------------------
# oracles
# ---------------------------------------------------------------------------
def violation_classes(prop: str, r: dict) -> list[str]:
    st = r.get("status")
    out: list[str] = []
    if st in ("toobig", "unsupported") or (st or "").startswith("harness"):
        return out
    if prop == "C07":
        return sorted({v[0] for v in r.get("c07", [])})
    if prop == "C01":
        if st == "no-termination":
            return ["no-termination"]
        if st == "exc":
            return ["exception:" + r.get("exc", "?").split(":")[0]]
        if r.get("parse") == "unparseable":
            return ["unparseable"]
        if r.get("c01_rejected"):
            return ["job-rejected"]
        return out
    if st != "ok":
        return out  # C01's business
    if prop == "C02":
        if r.get("c02_extra"):
            return ["extra-job"]
        return out
    if prop == "C05":
        if r.get("strict"):
            out.append(r["strict"][0])
        if r.get("leaks"):
            out.append("placeholder-leak")
        if r.get("names_missing"):
            out.append("name-missing")
        if r.get("names_extra"):
            out.append("name-extra")
        return out
    return out


def outcome(r: dict):
    """C03 outcome of one run."""
    st = r.get("status")
    if st == "ok":
        if r.get("parse") == "unparseable":
            return ["fail", "unparseable"]
        if r.get("lang") is None:
            return None  # undecided
        return ["ok", r["lang"], ",".join(sorted(
            set(r["names_in"]) - set(r.get("names_missing", []))
            | set(r.get("names_extra", []))))]
    if st == "exc":
        return ["fail", "exception:" + r.get("exc", "?").split(":")[0]]
    if st == "no-termination":
        return ["fail", "no-termination"]
    return None


def log_digest(r: dict) -> str:
    keys = ("status", "exc", "text_sha", "strict", "lang", "c01_rejected",
            "c02_extra", "c07", "steps", "uuid_calls", "clock_calls",
            "nesting_sig", "names_missing", "names_extra", "leaks", "parse")
    return core.digest({k: r.get(k) for k in keys})


def nontrivial(r: dict) -> bool:
    f = r.get("features") or {}
    gates = f.get("and", 0) + f.get("or", 0) + f.get("xor", 0) + f.get(
        "loop", 0)
    return gates >= 1 and r.get("n_delivered", 0) >= 2


def explicit_unit(u: dict, r: dict) -> dict:
    """Self-contained unit for a replay file: explicit AST and presentation."""
    e = copy.deepcopy(u)
    e["ast"] = u.get("ast") or gen_defs.load_workload(u["wid"])
    if r.get("present"):
        e["present"] = r["present"]
    e["hash_seed"] = core.hash_seed_of_class(u["hash_class"])
    return e


# ---------------------------------------------------------------------------
# minimisation (DESIGN.md 2.6)
# ---------------------------------------------------------------------------
def _has_bk(seq, kinds):
    return puml_sem.count_kind(seq, kinds) > 0


def shrink_candidates(ast):
    """One-step smaller definitions that stay inside fragment F."""
    def rec(seq, rebuild):
        for i, it in enumerate(seq):
            if it[0] in ("and", "or", "xor", "loop"):
                # drop the whole block
                yield rebuild(seq[:i] + seq[i + 1:])
                if it[0] == "loop":
                    if not _has_bk(it[1], ("break",)):
                        yield rebuild(seq[:i] + it[1] + seq[i + 1:])
                    yield from rec(
                        it[1],
                        lambda b, i=i, it=it: rebuild(
                            seq[:i] + [["loop", b]] + seq[i + 1:]),
                    )
                else:
                    brs = it[1]
                    if len(brs) > 2:
                        for j in range(len(brs)):
                            yield rebuild(
                                seq[:i] + [[it[0], brs[:j] + brs[j + 1:]]]
                                + seq[i + 1:])
                    for j, b in enumerate(brs):
                        if not _has_bk(b, ("break", "kill")):
                            yield rebuild(seq[:i] + b + seq[i + 1:])
                        yield from rec(
                            b,
                            lambda nb, i=i, j=j, it=it, brs=brs: rebuild(
                                seq[:i]
                                + [[it[0], brs[:j] + [nb] + brs[j + 1:]]]
                                + seq[i + 1:]),
                        )
            elif it[0] == "ev":
                if i == 0:
                    continue
                prev_block = seq[i - 1][0] != "ev"
                nxt = seq[i + 1][0] if i + 1 < len(seq) else None
                if prev_block and nxt in ("and", "or", "xor", "loop"):
                    continue  # separator between two blocks
                yield rebuild(seq[:i] + seq[i + 1:])

    yield from rec(ast, lambda s: s)


def valid_f(ast, in_loop=False, top=True) -> bool:
    if not ast or ast[0][0] != "ev":
        return False
    for i, it in enumerate(ast):
        if it[0] in ("break", "kill") and i != len(ast) - 1:
            return False
        if it[0] == "break" and not in_loop:
            return False
        if it[0] in ("and", "or", "xor"):
            if len(it[1]) < 2:
                return False
            if not all(valid_f(b, in_loop, False) for b in it[1]):
                return False
        if it[0] == "loop" and not valid_f(it[1], True, False):
            return False
        if i and it[0] in ("and", "or", "xor", "loop") and ast[i - 1][0] in (
                "and", "or", "xor", "loop"):
            return False
    return True


def minimise(pool, prop: str, unit: dict, rec: dict, cls: str,
             budget: int = 120) -> tuple[dict, dict]:
    """Greedy shrink while the same violation class persists.  Returns the
    (explicit unit, record) of the smallest failing unit found."""
    best_u, best_r = explicit_unit(unit, rec), rec
    spent = 0

    def fails(u):
        nonlocal spent
        spent += 1
        r = pool.map([u])[0]
        return (cls in violation_classes(prop, r)), r

    # 1. identity presentation over the complete sample
    if prop != "C01" or rec.get("complete"):
        u = copy.deepcopy(best_u)
        u["present"] = {"order": None, "event_perm_seed": None,
                        "rename_seed": None, "ts_shift_s": 0,
                        "dup_same_ids": False}
        u["kmax_in"] = 2
        ok, r = fails(u)
        if ok:
            best_u, best_r = explicit_unit(u, r), r
    # 2. drop jobs (C01 on a sub-sample only)
    if prop == "C01" and cls == "job-rejected" and not best_r.get("complete"):
        order = list(best_u["present"]["order"])
        i = 0
        while i < len(order) and spent < budget and len(order) > 1:
            cand = order[:i] + order[i + 1:]
            u = copy.deepcopy(best_u)
            u["present"]["order"] = cand
            ok, r = fails(u)
            if ok:
                order = cand
                best_u, best_r = explicit_unit(u, r), r
            else:
                i += 1
    # 3. shrink the definition (complete samples only: indices stay valid)
    if best_u["present"].get("order") is None or best_r.get("complete"):
        progress = True
        # definitions of the relaxed family geny are not in F themselves
        strict_f = valid_f(best_u["ast"])
        while progress and spent < budget:
            progress = False
            for cand in shrink_candidates(best_u["ast"]):
                if spent >= budget:
                    break
                if not cand or (strict_f and not valid_f(cand)):
                    continue
                if prop != "C07" and gen_defs.excluded_by(cand):
                    continue  # never shrink into a class the pinned tree
                    #           itself fails on (R1-R3)
                u = copy.deepcopy(best_u)
                u["ast"] = cand
                u["wid"] = "ast"
                u["present"]["order"] = None
                ok, r = fails(u)
                if ok:
                    best_u, best_r = explicit_unit(u, r), r
                    progress = True
                    break
    return best_u, best_r


def minimise_c03(pool, wit, budget: int = 50):
    """Shrink the definition while the two witnessing schedules still
    disagree.  wit = [(unit, record), (unit, record)]."""
    (u1, r1), (u2, r2) = wit[0], wit[1]
    best = [explicit_unit(u1, r1), explicit_unit(u2, r2)]
    best_r = [r1, r2]
    strict_f = valid_f(best[0]["ast"])
    spent = 0

    def split(a, b):
        nonlocal spent
        spent += 1
        rs = pool.map([a, b])
        o = [outcome(r) for r in rs]
        return (None not in o
                and json.dumps(o[0]) != json.dumps(o[1])), rs

    progress = True
    while progress and spent < budget:
        progress = False
        for cand in shrink_candidates(best[0]["ast"]):
            if spent >= budget:
                break
            if strict_f and not valid_f(cand):
                continue
            if gen_defs.excluded_by(cand):
                continue
            pair = []
            for b in best:
                x = copy.deepcopy(b)
                x["ast"] = cand
                x["present"]["order"] = None
                pair.append(x)
            ok, rs = split(*pair)
            if ok:
                best = [explicit_unit(x, r) for x, r in zip(pair, rs)]
                best_r = rs
                progress = True
                break
    return best, best_r


# ---------------------------------------------------------------------------
# main
# ---------------------------------------------------------------------------
def build_units(prop: str, tier: str, seed: int, scale: float, findings):
    nw, ns = SIZES[prop][tier]
    nw = scaled(nw, scale)
    units = []
    seen = set()
    # pinned known findings are always executed
    for f in findings:
        if f["property"] != prop or f.get("status") != "known":
            continue
        # every listed finding is reproduced in every run: its first
        # PIN_RUN inputs are always executed (the others when the seeded
        # sample visits them)
        for wid, s in f.get("inputs", [])[:PIN_RUN]:
            sids = PIN_ALL_SIDS if s == "*" else [s]
            if prop == "C03":
                sids = pick_sids(prop, wid, SIZES[prop][tier][1], 0)
            for s in sids:
                if (wid, s) not in seen:
                    seen.add((wid, s))
                    units.append(grid.learn_unit(wid, s))
    count = 0
    for w in candidate_wids(seed, prop):
        if count >= nw:
            break
        count += 1
        for s in pick_sids(prop, w, ns, seed):
            if (w, s) not in seen:
                seen.add((w, s))
                units.append(grid.learn_unit(w, s))
    return units


def main(prop: str, argv=None):
    run = CheckRun(prop, argv)
    if run.replay:
        return replay(run)
    units = build_units(prop, run.tier, run.seed, run.scale, run.findings)
    with core.Pool(WORLD, run.nproc) as pool:
        results = pool.map(units)
        cov = evaluate(run, pool, prop, units, results)
    run.finish(cov, ASSUMPTIONS)


def evaluate(run: CheckRun, pool, prop, units, results) -> dict:
    stats: dict = {}
    hash_sigs = set()
    texts: dict = {}
    distinct = set()
    undecided = 0
    sim_ns = 0
    faults = {"listing_order_permuted_cli": 0,
              "job_reorder": 0, "event_reorder": 0, "id_rename": 0,
              "ts_shift": 0, "job_twice_same_ids": 0,
              "job_twice_new_ids": 0, "subsample": 0, "loop_run_3": 0,
              "hash_classes": set(), "uuid_streams": set(),
              "clock_origins": set()}
    probes = {"loops": 0, "nested_loops": 0, "breaks": 0, "kills": 0,
              "or_gates": 0, "and_gates": 0, "xor_gates": 0,
              "c07_monitor_calls": 0}
    samples = []
    new_violations: dict = {}
    for u, r in zip(units, results):
        st = r.get("status", "?")
        stats[st] = stats.get(st, 0) + 1
        if st.startswith("harness") or "harness_error" in r:
            run.harness_error(f"{u['wid']} s{u['sched']}: {st} "
                              f"{r.get('harness_error', '')}")
            continue
        if st in ("toobig", "unsupported"):
            continue
        p = r.get("present") or {}
        order = p.get("order") or []
        n2 = r.get("n_src2", 0)
        if order != sorted(order):
            faults["job_reorder"] += 1
        if p.get("event_perm_seed") is not None:
            faults["event_reorder"] += 1
        faults["listing_order_permuted_cli"] += bool(r.get("fs_permuted"))
        if p.get("rename_seed") is not None:
            faults["id_rename"] += 1
        if p.get("ts_shift_s"):
            faults["ts_shift"] += 1
        if len(order) != len(set(order)):
            faults["job_twice_same_ids" if p.get("dup_same_ids")
                   else "job_twice_new_ids"] += 1
        if not r.get("complete"):
            faults["subsample"] += 1
        if u.get("kmax_in", 2) > 2 and r.get("n_src", 0) > n2:
            faults["loop_run_3"] += 1
        faults["hash_classes"].add(u["hash_class"])
        faults["uuid_streams"].add(u["uuid_seed"])
        faults["clock_origins"].add(u["clock_origin_s"])
        hash_sigs.add((u["hash_class"], r.get("hash_sig")))
        sim_ns += r.get("sim_ns", 0)
        f = r.get("features") or {}
        probes["loops"] += f.get("loop", 0) > 0
        probes["nested_loops"] += r.get("c07_depth", 0) > 1
        probes["breaks"] += f.get("break", 0) > 0
        probes["kills"] += f.get("kill", 0) > 0
        probes["or_gates"] += f.get("or", 0) > 0
        probes["and_gates"] += f.get("and", 0) > 0
        probes["xor_gates"] += f.get("xor", 0) > 0
        probes["c07_monitor_calls"] += r.get("c07_calls", 0)
        if r.get("text_sha"):
            texts.setdefault(u["wid"], set()).add(r["text_sha"])
        if st == "ok" and r.get("lang") is None and prop in (
                "C01", "C02", "C03"):
            undecided += 1
        if nontrivial(r):
            distinct.add((u["wid"], u["sched"]))
        if len(samples) < 3 and nontrivial(r) and st == "ok":
            samples.append({
                "workload": u["wid"], "schedule": u["sched"],
                "hash_class": u["hash_class"],
                "definition": puml_sem.show(
                    gen_defs.load_workload(u["wid"])),
                "presentation": {k: v for k, v in p.items()
                                 if k != "order"} | {
                    "order": order[:40]},
                "emitted": r.get("text", "").split("\n"),
                "log_digest": log_digest(r),
            })
        if prop == "C03":
            continue
        for cls in violation_classes(prop, r):
            key = {"workload": u["wid"], "schedule": u["sched"],
                   "violation_class": cls}
            if core.match_known(prop, key, run.findings):
                run.violation(key, "")
            else:
                new_violations.setdefault((u["wid"], cls), (u, r))
    if prop == "C03":
        by_w: dict = {}
        for u, r in zip(units, results):
            by_w.setdefault(u["wid"], []).append((u, r))
        for w, lst in by_w.items():
            outs = {}
            for u, r in lst:
                o = outcome(r)
                if o is None:
                    continue
                outs.setdefault(json.dumps(o), (u, r))
            if len(outs) > 1:
                key = {"workload": w, "schedule": "*",
                       "violation_class": "outcome-split"}
                if core.match_known(prop, key, run.findings):
                    run.violation(key, "")
                else:
                    new_violations.setdefault((w, "outcome-split"),
                                              list(outs.values()))
    # minimise + replay files for new violations (bounded)
    for n, ((w, cls), wit) in enumerate(sorted(new_violations.items(),
                                               key=lambda kv: kv[0])):
        key = {"workload": w, "violation_class": cls}
        if prop == "C03":
            units2 = [explicit_unit(u, r) for u, r in wit[:2]]
            recs2 = [r for u, r in wit[:2]]
            if n < 4:
                mu, mr = minimise_c03(pool, wit[:2])
                chk = pool.map(mu)
                if [log_digest(r) for r in chk] == [log_digest(r)
                                                    for r in mr]:
                    units2, recs2 = mu, mr
            pay = {
                "kind": "C03-history",
                "violation_class": cls,
                "units": units2,
                "definition": puml_sem.show(units2[0]["ast"]),
                "emitted": [(r.get("text") or "").split("\n")
                            for r in recs2],
                "outcomes": [outcome(r) for r in recs2],
                "digests": [log_digest(r) for r in recs2],
            }
            run.violation(key, f"{w}: presentations/schedules disagree: "
                          f"{pay['outcomes']}", pay)
            continue
        u, r = wit
        if n < 5:
            mu, mr = minimise(pool, prop, u, r, cls)
            # the minimised file must fail identically in a fresh process
            chk = pool.map([mu])[0]
            if cls not in violation_classes(prop, chk) or log_digest(
                    chk) != log_digest(mr):
                mu, mr = explicit_unit(u, r), r
        else:
            mu, mr = explicit_unit(u, r), r
        pay = {
            "kind": "learn",
            "violation_class": cls,
            "unit": mu,
            "original": {"wid": u["wid"], "sched": u["sched"]},
            "digest": log_digest(mr),
            "emitted": (mr.get("text") or "").split("\n"),
            "definition": puml_sem.show(mu["ast"]),
            "detail": {k: mr.get(k) for k in (
                "status", "exc", "strict", "leaks", "names_missing",
                "names_extra", "c01_rejected", "c02_extra", "c02_sample",
                "c07", "parse_err")},
        }
        run.violation(key, f"{w} schedule {u['sched']}: {cls} "
                      f"(minimised to {len(puml_sem.event_name_list(mu['ast']))}"
                      f" events)", pay)
    multi_text = sum(1 for v in texts.values() if len(v) > 1)
    slow = sorted(((r.get("wall_s", 0), u["wid"], u["sched"])
                   for u, r in zip(units, results)), reverse=True)[:5]
    cov = {
        "evaluations": len(units),
        "distinct_nontrivial": len(distinct),
        "rule": "one evaluation = one simulated learner process (workload x "
                "presentation x schedule) from the fixed grid; distinct = "
                "distinct (workload id, schedule id); non-trivial = definition "
                "has >=1 fork or loop and >=2 jobs were delivered",
        "samples": samples,
        "statuses": stats,
        "undecided": undecided,
        "undecided_cap": "emitted language > 30000 executions or source > 400 "
                         "jobs (toobig)",
        "workloads": len({u["wid"] for u in units}),
        "seeds": {"VERIF_SEED": run.seed,
                  "grid_salt": core.GRID_SALT},
        "simulated_time_ns": sim_ns,
        "faults_fired": {k: (len(v) if isinstance(v, set) else v)
                         for k, v in faults.items()},
        "distinct_hash_order_signatures": len(hash_sigs),
        "workloads_with_more_than_one_emitted_text": multi_text,
        "probes": probes,
        "slowest_units_s": [list(x) for x in slow],
        "unit_wall_limit_s": 900,
    }
    return cov


def replay(run: CheckRun):
    prop = run.prop
    pay = json.load(open(run.replay))
    with core.Pool(WORLD, 1) as pool:
        if pay.get("kind") == "C03-history":
            rs = pool.map(pay["units"])
            outs = [outcome(r) for r in rs]
            digs = [log_digest(r) for r in rs]
            same = digs == pay["digests"]
            print(f"# replay outcomes={outs} digests_equal={same}")
            if len({json.dumps(o) for o in outs}) > 1:
                print(f"VIOLATION property={prop} replay={run.replay}")
                raise SystemExit(1)
            raise SystemExit(0)
        r = pool.map([pay["unit"]])[0]
    cls = violation_classes(prop, r)
    same = log_digest(r) == pay.get("digest")
    print(f"# replay classes={cls} digest_equal={same}")
    if pay["violation_class"] in cls:
        print(f"VIOLATION property={prop} replay={run.replay}")
        raise SystemExit(1)
    raise SystemExit(0)
