"""PlantUML activity-diagram (plus2json dialect) parser and execution semantics.

This is the small executable reference model of DESIGN.md section 3.1.  It has
no dependency on the code under test.

AST (JSON friendly): a *sequence* is a list of items, an item is one of
    ["ev", name]                 an event
    ["and"|"or"|"xor", [seq...]] a fork with branches
    ["loop", seq]                repeat ... repeat while
    ["break"]                    leave the innermost loop
    ["kill"]                     kill / detach

Two parse modes:
  * lenient: accepts the corpus dialect (colours, if/else/endif, switch/case,
    kill) and the emitted dialect.
  * strict : accepts only what the writer of tel2puml may legally emit and
    enforces the structural rules of property C05.  Raises StrictError with a
    violation *class* (frame, unbalanced, separator-outside-block,
    break-misplaced, detach-misplaced, token).
"""
from __future__ import annotations

import hashlib
import itertools
import re
import sys

sys.setrecursionlimit(20000)


class ParseError(Exception):
    pass


class StrictError(Exception):
    def __init__(self, cls: str, msg: str):
        super().__init__(f"{cls}: {msg}")
        self.cls = cls
        self.msg = msg


class Unsupported(Exception):
    pass


class TooMany(Exception):
    pass


EV_RE = re.compile(r"^(#\w+)?:(.*);$")
PLACEHOLDER_RE = re.compile(
    r"\|\|\|START\|\|\||\|\|\|END\|\|\||\|\|\|DUMMY\|\|\||DUMMY_BREAK|LOOP_\d+"
)


def tokenize(text: str) -> list[str]:
    toks = []
    for raw in text.splitlines():
        s = raw.strip()
        if not s or s.startswith("'"):
            continue
        toks.append(s)
    return toks


# --------------------------------------------------------------------------
# lenient parser
# --------------------------------------------------------------------------
def parse(text: str):
    """Lenient parse. Returns (name, seq)."""
    # the corpus has files whose last line is "@enduml" directly followed by
    # nothing; some have '@enduml@startuml' artefacts only when concatenated.
    toks = tokenize(text)
    pos = 0

    def peek():
        return toks[pos] if pos < len(toks) else None

    def nxt():
        nonlocal pos
        if pos >= len(toks):
            raise ParseError("unexpected EOF")
        t = toks[pos]
        pos += 1
        return t

    def expect(pred, what):
        t = nxt()
        if not pred(t):
            raise ParseError(f"expected {what} got {t!r}")
        return t

    def starts(t, x):
        return t == x or t.startswith(x + " ") or t.startswith(x + "(")

    expect(lambda t: t == "@startuml", "@startuml")
    t = expect(lambda t: t.startswith("partition "), "partition")
    m = re.match(r'^partition\s+"(.*)"\s*\{$', t)
    if not m:
        raise ParseError("bad partition " + t)
    pname = m.group(1)
    t = expect(lambda t: t.startswith("group "), "group")
    if not re.match(r'^group\s+"(.*)"$', t):
        raise ParseError("bad group " + t)

    def parse_seq(terms):
        items = []
        while True:
            t = peek()
            if t is None:
                raise ParseError("unexpected EOF")
            if any(starts(t, x) for x in terms):
                return items
            nxt()
            m = EV_RE.match(t)
            if m:
                body = m.group(2)
                parts = body.split(",")
                items.append(["ev", parts[0]])
                continue
            if t == "break":
                items.append(["break"])
                continue
            if t in ("kill", "detach"):
                items.append(["kill"])
                continue
            if t == "fork":
                brs = [parse_seq(["fork again", "end fork"])]
                while peek() == "fork again":
                    nxt()
                    brs.append(parse_seq(["fork again", "end fork"]))
                expect(lambda x: x == "end fork", "end fork")
                items.append(["and", brs])
                continue
            if t == "split":
                brs = [parse_seq(["split again", "end split"])]
                while peek() == "split again":
                    nxt()
                    brs.append(parse_seq(["split again", "end split"]))
                expect(lambda x: x == "end split", "end split")
                items.append(["or", brs])
                continue
            if starts(t, "switch"):
                brs = []
                if not starts(peek() or "", "case"):
                    raise ParseError("switch without case")
                while starts(peek() or "", "case"):
                    nxt()
                    brs.append(parse_seq(["case", "endswitch"]))
                expect(lambda x: x == "endswitch", "endswitch")
                items.append(["xor", brs])
                continue
            if starts(t, "if"):
                brs = [parse_seq(["elseif", "else", "endif"])]
                while starts(peek() or "", "elseif") or starts(
                    peek() or "", "else"
                ):
                    nxt()
                    brs.append(parse_seq(["elseif", "else", "endif"]))
                expect(lambda x: x == "endif", "endif")
                items.append(["xor", brs])
                continue
            if t == "repeat":
                body = parse_seq(["repeat while"])
                nxt()
                items.append(["loop", body])
                continue
            raise ParseError(f"unexpected token {t!r}")

    items = parse_seq(["end group"])
    expect(lambda t: t == "end group", "end group")
    expect(lambda t: t == "}", "}")
    expect(lambda t: t == "@enduml", "@enduml")
    if pos != len(toks):
        raise ParseError("trailing tokens")
    return pname, items


# --------------------------------------------------------------------------
# strict parser of the emitted dialect (property C05)
# --------------------------------------------------------------------------
_OPEN = {
    "fork": ("and", "fork again", "end fork"),
    "split": ("or", "split again", "end split"),
    "switch (XOR)": ("xor", 'case ("")', "endswitch"),
}
_SEPARATORS = {"fork again": "fork", "split again": "split",
               'case ("")': "switch (XOR)"}
_CLOSERS = {"end fork": "fork", "end split": "split",
            "endswitch": "switch (XOR)", "repeat while": "repeat"}
STRICT_EV_RE = re.compile(r"^:([^;:]+);$")


def parse_strict(text: str):
    """Strict parse of an emitted diagram. Returns (name, seq).

    Rules (C05): exactly one @startuml / partition "<n>" { / group "<n>" ...
    end group / } / @enduml frame; every fork, split, switch and repeat closed
    by its own terminator in properly nested order; separators only directly
    inside their own block; `break` only as the last item of a branch
    (fork/split/switch branch) that lies inside a repeat; `detach` only as the
    last item of a branch or of the top-level sequence; nothing outside this
    grammar."""
    # blank lines and indentation carry no meaning in the dialect
    lines = [ln.strip() for ln in text.split("\n")]
    toks = [ln for ln in lines if ln != ""]
    if len(toks) < 6:
        raise StrictError("frame", "too short")
    if toks[0] != "@startuml":
        raise StrictError("frame", f"first line {toks[0]!r}")
    m = re.match(r'^partition "([^"]*)" \{$', toks[1])
    if not m:
        raise StrictError("frame", f"partition line {toks[1]!r}")
    pname = m.group(1)
    m2 = re.match(r'^group "([^"]*)"$', toks[2])
    if not m2:
        raise StrictError("frame", f"group line {toks[2]!r}")
    if m2.group(1) != pname:
        raise StrictError("frame", "group name differs from partition name")
    if toks[-1] != "@enduml" or toks[-2] != "}" or toks[-3] != "end group":
        raise StrictError("frame", f"tail {toks[-3:]!r}")
    # the labels of `switch (...)` / `case (...)` are free text: normalise
    body = [re.sub(r"^switch\s*\(.*\)$", "switch (XOR)",
                   re.sub(r"^case\s*\(.*\)$", 'case ("")', t))
            for t in toks[3:-3]]
    for t in body:
        if t in ("@startuml", "@enduml", "}", "end group") or t.startswith(
            "partition "
        ) or t.startswith("group "):
            raise StrictError("frame", f"frame token {t!r} inside body")
    pos = 0

    def peek():
        return body[pos] if pos < len(body) else None

    def parse_seq(ctx, loop_depth, is_branch):
        """ctx: the opener token whose block directly encloses this sequence
        (None at top level, 'repeat' for loop bodies)."""
        nonlocal pos
        items = []
        while True:
            t = peek()
            if t is None:
                if ctx is not None:
                    raise StrictError("unbalanced", f"{ctx!r} never closed")
                break
            if t in _SEPARATORS:
                if ctx != _SEPARATORS[t]:
                    raise StrictError(
                        "separator-outside-block",
                        f"{t!r} directly inside {ctx!r}",
                    )
                break
            if t in _CLOSERS:
                if ctx != _CLOSERS[t]:
                    raise StrictError(
                        "unbalanced", f"{t!r} closes {ctx!r}"
                    )
                break
            if items and items[-1][0] == "break":
                raise StrictError("break-misplaced", f"{t!r} follows break")
            if items and items[-1][0] == "kill":
                raise StrictError("detach-misplaced", f"{t!r} follows detach")
            pos += 1
            m = STRICT_EV_RE.match(t)
            if m:
                items.append(["ev", m.group(1)])
                continue
            if t == "break":
                if loop_depth == 0:
                    raise StrictError("break-misplaced", "break outside repeat")
                if not is_branch:
                    raise StrictError(
                        "break-misplaced", "break not inside a branch"
                    )
                if not items:
                    raise StrictError(
                        "break-misplaced", "break opens a branch"
                    )
                items.append(["break"])
                continue
            if t == "detach":
                if not items:
                    raise StrictError(
                        "detach-misplaced", "detach opens a sequence"
                    )
                if ctx == "repeat":
                    raise StrictError(
                        "detach-misplaced", "detach directly in loop body"
                    )
                items.append(["kill"])
                continue
            if t in _OPEN:
                op, sep, close = _OPEN[t]
                if t == "switch (XOR)":
                    if peek() != sep:
                        raise StrictError(
                            "unbalanced", "switch not followed by case"
                        )
                    pos += 1
                brs = [parse_seq(t, loop_depth, True)]
                while peek() == sep:
                    pos += 1
                    brs.append(parse_seq(t, loop_depth, True))
                if peek() != close:
                    raise StrictError(
                        "unbalanced", f"{t!r} not closed by {close!r}"
                    )
                pos += 1
                # a block with a single branch is unusual but satisfies
                # every clause of C05 (own terminator, proper nesting,
                # separators inside their block): accepted
                if any(len(b) == 0 for b in brs):
                    raise StrictError("unbalanced", f"{t!r} with empty branch")
                items.append([op, brs])
                continue
            if t == "repeat":
                b = parse_seq("repeat", loop_depth + 1, False)
                if peek() != "repeat while":
                    raise StrictError("unbalanced", "repeat not closed")
                pos += 1
                if not b:
                    raise StrictError("unbalanced", "empty repeat")
                items.append(["loop", b])
                continue
            raise StrictError("token", f"token outside dialect: {t!r}")
        return items

    items = parse_seq(None, 0, False)
    if pos != len(body):
        raise StrictError("unbalanced", f"stray {body[pos]!r}")
    return pname, items


def placeholder_leaks(text: str) -> list[str]:
    return sorted(set(PLACEHOLDER_RE.findall(text)))


# --------------------------------------------------------------------------
# AST helpers
# --------------------------------------------------------------------------
def event_names(items) -> set[str]:
    out: set[str] = set()
    for it in items:
        if it[0] == "ev":
            out.add(it[1])
        elif it[0] in ("and", "or", "xor"):
            for b in it[1]:
                out |= event_names(b)
        elif it[0] == "loop":
            out |= event_names(it[1])
    return out


def event_name_list(items) -> list[str]:
    out: list[str] = []
    for it in items:
        if it[0] == "ev":
            out.append(it[1])
        elif it[0] in ("and", "or", "xor"):
            for b in it[1]:
                out += event_name_list(b)
        elif it[0] == "loop":
            out += event_name_list(it[1])
    return out


def count_kind(items, kinds) -> int:
    n = 0
    for it in items:
        if it[0] in kinds:
            n += 1
        if it[0] in ("and", "or", "xor"):
            for b in it[1]:
                n += count_kind(b, kinds)
        elif it[0] == "loop":
            n += count_kind(it[1], kinds)
    return n


def show(items, ind=0) -> list[str]:
    out = []
    for it in items:
        p = "  " * ind
        if it[0] == "ev":
            out.append(p + it[1])
        elif it[0] in ("break", "kill"):
            out.append(p + it[0])
        elif it[0] == "loop":
            out.append(p + "loop{")
            out += show(it[1], ind + 1)
            out.append(p + "}")
        else:
            out.append(p + it[0] + "{")
            for i, b in enumerate(it[1]):
                if i:
                    out.append(p + "|")
                out += show(b, ind + 1)
            out.append(p + "}")
    return out


def to_puml(items, name="x") -> str:
    """Write an AST in the emitted dialect (used for replay files / docs)."""
    lines = ["@startuml", f'partition "{name}" {{', f'group "{name}"']

    def w(seq, ind):
        p = "    " * ind
        for it in seq:
            if it[0] == "ev":
                lines.append(f"{p}:{it[1]};")
            elif it[0] == "break":
                lines.append(p + "break")
            elif it[0] == "kill":
                lines.append(p + "detach")
            elif it[0] == "loop":
                lines.append(p + "repeat")
                w(it[1], ind + 1)
                lines.append(p + "repeat while")
            else:
                o, s, c = {"and": ("fork", "fork again", "end fork"),
                           "or": ("split", "split again", "end split"),
                           "xor": ("switch (XOR)", 'case ("")', "endswitch")}[
                    it[0]]
                lines.append(p + o)
                for i, b in enumerate(it[1]):
                    if it[0] == "xor" or i:
                        lines.append(p + s)
                    w(b, ind + 1)
                lines.append(p + c)

    w(items, 1)
    lines += ["end group", "}", "@enduml"]
    return "\n".join(lines)


# --------------------------------------------------------------------------
# execution semantics
# --------------------------------------------------------------------------
def executions(items, kmax=2, kmin=1, cap=None):
    """Yield the distinct executions (jobs) of a definition as tuples of
    (node id, event type, tuple(previous node ids)).  Every loop body runs
    kmin..kmax times.  Raises TooMany when more than `cap` raw executions
    were produced."""
    counter = [0]

    def ex_seq(items, nodes, frontier):
        if not items:
            yield nodes, frontier, "ok"
            return
        it, rest = items[0], items[1:]
        k = it[0]
        if k == "ev":
            nid = len(nodes)
            nodes2 = nodes + ((nid, it[1], tuple(sorted(frontier))),)
            yield from ex_seq(rest, nodes2, (nid,))
        elif k == "break":
            yield nodes, frontier, "break"
        elif k == "kill":
            yield nodes, frontier, "kill"
        elif k == "xor":
            for br in it[1]:
                for n2, f2, st in ex_seq(tuple(br), nodes, frontier):
                    if st == "ok":
                        yield from ex_seq(rest, n2, f2)
                    else:
                        yield n2, f2, st
        elif k in ("and", "or"):
            brs = it[1]
            if k == "and":
                subsets = [tuple(range(len(brs)))]
            else:
                subsets = [
                    s
                    for r in range(1, len(brs) + 1)
                    for s in itertools.combinations(range(len(brs)), r)
                ]
            for sub in subsets:

                def par(idx, nodes_, acc, sub=sub):
                    if idx == len(sub):
                        yield nodes_, acc
                        return
                    for n2, f2, st in ex_seq(
                        tuple(brs[sub[idx]]), nodes_, frontier
                    ):
                        yield from par(idx + 1, n2, acc + ((f2, st),))

                for n2, acc in par(0, nodes, ()):
                    sts = [st for _, st in acc]
                    if "break" in sts:
                        raise Unsupported("break under and/or")
                    fr = tuple(
                        sorted(
                            set(x for f, st in acc if st == "ok" for x in f)
                        )
                    )
                    if not fr:
                        yield n2, (), "kill"
                    else:
                        yield from ex_seq(rest, n2, fr)
        elif k == "loop":

            def iterate(n, nodes_, frontier_):
                for n2, f2, st in ex_seq(tuple(it[1]), nodes_, frontier_):
                    if st == "ok":
                        if n >= kmin:
                            yield from ex_seq(rest, n2, f2)
                        if n < kmax:
                            yield from iterate(n + 1, n2, f2)
                    elif st == "break":
                        yield from ex_seq(rest, n2, f2)
                    else:
                        yield n2, f2, st

            yield from iterate(1, nodes, frontier)
        else:
            raise ValueError(k)

    seen = set()
    for nodes, f, st in ex_seq(tuple(items), (), ()):
        if st == "break":
            raise Unsupported("break outside loop")
        counter[0] += 1
        if cap is not None and counter[0] > cap:
            raise TooMany()
        if not nodes:
            continue
        c = canon(nodes)
        if c not in seen:
            seen.add(c)
            yield nodes


def canon(nodes) -> str:
    """Canonical (isomorphism invariant) digest of a labelled DAG: backward
    and forward Merkle signatures per node, multiset of nodes and of
    signature-labelled edges."""
    ids = [n[0] for n in nodes]
    typ = {n[0]: n[1] for n in nodes}
    prev = {n[0]: n[2] for n in nodes}
    succ = {i: [] for i in ids}
    for i in ids:
        for p in prev[i]:
            succ[p].append(i)
    bs: dict = {}

    def b(i):
        if i not in bs:
            bs[i] = hashlib.md5(
                ("B|" + typ[i] + "|" + ",".join(sorted(b(p) for p in prev[i])))
                .encode()
            ).hexdigest()
        return bs[i]

    fs: dict = {}

    def f(i):
        if i not in fs:
            fs[i] = hashlib.md5(
                ("F|" + typ[i] + "|" + ",".join(sorted(f(s) for s in succ[i])))
                .encode()
            ).hexdigest()
        return fs[i]

    sig = {i: b(i) + f(i) for i in ids}
    edges = sorted((sig[p], sig[i]) for i in ids for p in prev[i])
    h = hashlib.md5()
    for s in sorted(sig.values()):
        h.update(s.encode())
    h.update(b"|")
    for a, c in edges:
        h.update(a.encode())
        h.update(c.encode())
    return h.hexdigest()


def language(items, kmax=2, kmin=1, cap=30000) -> set[str] | None:
    """Set of canonical forms of all executions; None when above the cap."""
    out = set()
    try:
        for j in executions(items, kmax=kmax, kmin=kmin, cap=cap * 4):
            out.add(canon(j))
            if len(out) > cap:
                return None
    except TooMany:
        return None
    return out


def lang_digest(lang: set[str]) -> str:
    h = hashlib.sha256()
    for c in sorted(lang):
        h.update(c.encode())
    return h.hexdigest()[:16]


def job_from_pv(pv_events) -> tuple:
    """PV event list -> nodes tuple (for canon)."""
    idx = {e["eventId"]: i for i, e in enumerate(pv_events)}
    nodes = []
    for e in pv_events:
        prev = e.get("previousEventIds", [])
        if isinstance(prev, str):
            prev = [prev]
        nodes.append(
            (idx[e["eventId"]], e["eventType"],
             tuple(sorted(idx[p] for p in prev)))
        )
    return tuple(nodes)
