"""C14 and C15: histories of real CLI processes over durable media.
DESIGN.md section 4 (C14, C15)."""
from __future__ import annotations

import copy
import itertools
import json
import random

from . import core, world_cli as wc
from .driver import CheckRun, scaled

WORLD = "world_cli"
N_DS = {"C14": 3000, "C15": 3000}   # fixed, pre-soaked data-set grid
SIZES = {
    "C14": {"quick": 260, "thorough": 2400},
    # C15: (data sets with sampled histories, data sets with ALL histories of
    # length <= 3)
    "C15": {"quick": (120, 1), "thorough": (600, 8)},
}

# special-name family: wc.SPECIAL_BASE + 0..N_SPECIAL-1 (workflow names with
# glob / regex / encoding characters next to sibling names they would match)
N_SPECIAL = 600
N_SPECIAL_C14 = 900      # 600..899: some spans carry an empty application name
SIZES_SPECIAL = {"C14": {"quick": 60, "thorough": N_SPECIAL_C14},
                 "C15": {"quick": 24, "thorough": 300}}

# delivery-layout family: wc.LAYOUT_BASE + 0..N_LAYOUT-1 (nested directories,
# one JSON document per line, one single file given as `filepath`)
N_LAYOUT = 200
SIZES_LAYOUT = {"C14": {"quick": 40, "thorough": N_LAYOUT},
                "C15": {"quick": 20, "thorough": 100}}

ASSUMPTIONS = [
    "every process of a history is the real tel2puml.__main__.main_handler in "
    "its own forked child; only the input directory, the SQLite file and the "
    "output directories survive between processes",
    "data sets (OTel JSON documents, sequencer config, PV key mapping, batch "
    "size) come from the fixed pre-soaked grid (property, index); VERIF_SEED "
    "selects indices, histories, uuid streams and listing orders",
    "diagram equivalence = equal event names and equal language with loops "
    "unrolled <= 2 under the PlantUML semantics of sim/puml_sem.py",
    "trace shapes are taken from the producer (span names and parent links "
    "as written to the files)",
]

FLAGS = [dict(ingest=i, ug=u, se=s) for i in (True, False)
         for u in (False, True) for s in (False, True)]


def fl(h):
    return "".join(("i" if x["ingest"] else "n") + ("u" if x["ug"] else "-")
                   + ("s" if x["se"] else "-") + " " for x in h).strip()


def all_histories(maxlen: int):
    first = [f for f in FLAGS if f["ingest"]]
    for n in range(1, maxlen + 1):
        for h0 in first:
            for rest in itertools.product(FLAGS, repeat=n - 1):
                yield [h0] + list(rest)


def sample_history(r: random.Random) -> list[dict]:
    n = r.choice([2, 2, 3, 3, 4])
    h = [r.choice([f for f in FLAGS if f["ingest"]])]
    for _ in range(n - 1):
        h.append(r.choice(FLAGS))
    return h


def c14_unit(i: int) -> dict:
    """Grid point i of C14: the uuid streams / listing orders of its
    processes are fixed per data set, so the whole grid can be soaked."""
    return {"kind": "c14", "idx": i, "hash_class": i % 16,
            "uuid_seed": core.grid("c14-uuid", i) % 2**32}


def build_units(prop, tier, seed, scale, findings):
    units = []
    r = random.Random(core.derive(seed, prop, "datasets"))
    if prop == "C14":
        n = scaled(SIZES[prop][tier], scale)
        for f in findings:
            if f["property"] == prop and f.get("status") == "known":
                if "dataset" in f.get("key", {}):
                    units.append(c14_unit(
                        int(f["key"]["dataset"].split(":")[1])))
        for i in r.sample(range(N_DS[prop]), min(n, N_DS[prop])):
            units.append(c14_unit(i))
        ns = scaled(SIZES_SPECIAL[prop][tier], scale)
        for i in sorted(r.sample(range(N_SPECIAL_C14),
                                 min(ns, N_SPECIAL_C14))):
            units.append(c14_unit(wc.SPECIAL_BASE + i))
        nl = scaled(SIZES_LAYOUT[prop][tier], scale)
        rl = random.Random(core.derive(seed, prop, "layout-datasets"))
        for i in sorted(rl.sample(range(N_LAYOUT), min(nl, N_LAYOUT))):
            units.append(c14_unit(wc.LAYOUT_BASE + i))
        return units
    n_s, n_all = SIZES[prop][tier]
    n_s, n_all = scaled(n_s, scale), scaled(n_all, scale)
    idxs = r.sample(range(N_DS[prop]), min(n_s + n_all, N_DS[prop]))
    for f in findings:
        if f["property"] == prop and f.get("status") == "known" and f.get(
                "pin"):
            p = f["pin"]
            units.append({"kind": "c15", "idx": p["idx"],
                          "hash_class": p["idx"] % 16, "uuid_seed": 1,
                          "history": p["history"]})
    if tier == "thorough":
        # two data sets with every history of length <= 4 (2 340 each)
        for i in idxs[-2:]:
            for h in all_histories(4):
                if len(h) == 4:
                    units.append({"kind": "c15", "idx": i,
                                  "hash_class": i % 16,
                                  "uuid_seed": core.derive(
                                      seed, prop, "uuid", i) % 2**32,
                                  "history": h, "exhaustive": True})
    for i in idxs[:n_all]:
        for h in all_histories(3):
            units.append({"kind": "c15", "idx": i, "hash_class": i % 16,
                          "uuid_seed": core.derive(seed, prop, "uuid", i)
                          % 2**32, "history": h, "exhaustive": True})
    ns = scaled(SIZES_SPECIAL[prop][tier], scale)
    rs = random.Random(core.derive(seed, prop, "special-datasets"))
    special = [wc.SPECIAL_BASE + i for i in sorted(
        rs.sample(range(N_SPECIAL), min(ns, N_SPECIAL)))]
    nl = scaled(SIZES_LAYOUT[prop][tier], scale)
    rl = random.Random(core.derive(seed, prop, "layout-datasets"))
    layout = [wc.LAYOUT_BASE + i for i in sorted(
        rl.sample(range(N_LAYOUT), min(nl, N_LAYOUT)))]
    for i in idxs[n_all:] + special + layout:
        hr = random.Random(core.derive(seed, prop, "history", i))
        for _ in range(2):
            units.append({"kind": "c15", "idx": i, "hash_class": i % 16,
                          "uuid_seed": core.derive(seed, prop, "uuid", i)
                          % 2**32, "history": sample_history(hr)})
    return units


def classes(r):
    return [e[0] for e in r.get("errs", []) if e[0] != "harness"]


def vkey(prop, u, r, cls):
    if prop == "C15":
        return {"dataset": r["id"], "history": fl(u["history"]),
                "violation_class": cls}
    return {"dataset": r["id"], "violation_class": cls}


# ---------------------------------------------------------------------------
# minimisation: shorter history, fewer traces, fewer files, simpler config
# ---------------------------------------------------------------------------
def ds_candidates(ds):
    # drop one trace completely
    for tid in sorted(ds["traces"]):
        c = copy.deepcopy(ds)
        for f in c["files"]:
            for rs in f["doc"]["resource_spans"]:
                for sc in rs["scope_spans"]:
                    sc["spans"] = [s for s in sc["spans"]
                                   if s["trace_id"] != tid]
        del c["traces"][tid]
        yield c
    # merge all files into one
    if len(ds["files"]) > 1:
        c = copy.deepcopy(ds)
        rs = [r for f in c["files"] for r in f["doc"]["resource_spans"]]
        c["files"] = [{"name": "otel_0.json", "doc": {"resource_spans": rs}}]
        yield c
    for key, val in (("mapping", None), ("batch_size", 1000)):
        if ds.get(key) != val:
            c = copy.deepcopy(ds)
            c[key] = val
            yield c
    if ds["sequencer"] != {"async_flag": False}:
        c = copy.deepcopy(ds)
        c["sequencer"] = {"async_flag": False}
        yield c


def _prune(ds):
    for f in ds["files"]:
        for rs in f["doc"]["resource_spans"]:
            rs["scope_spans"] = [sc for sc in rs["scope_spans"]
                                 if sc["spans"]]
        f["doc"]["resource_spans"] = [rs for rs in f["doc"]["resource_spans"]
                                      if rs["scope_spans"]]
    ds["files"] = [f for f in ds["files"] if f["doc"]["resource_spans"]]
    return ds


def minimise(pool, prop, unit, rec, cls, budget=60):
    ds = unit.get("dataset") or wc.gen_dataset(prop, unit["idx"])
    best_u = dict(unit, dataset=copy.deepcopy(ds))
    best_r = rec
    spent = 0

    def fails(u):
        nonlocal spent
        spent += 1
        rr = pool.map([u])[0]
        return cls in classes(rr), rr

    if prop == "C15":
        # shorter histories first
        h = list(best_u["history"])
        i = 0
        while len(h) > 1 and i < len(h) and spent < budget:
            cand = h[:i] + h[i + 1:]
            if not cand[0]["ingest"]:
                i += 1
                continue
            u = dict(best_u, history=cand)
            ok, rr = fails(u)
            if ok:
                h, best_u, best_r = cand, u, rr
            else:
                i += 1
    progress = True
    while progress and spent < budget:
        progress = False
        for cand in ds_candidates(best_u["dataset"]):
            if spent >= budget:
                break
            cand = _prune(cand)
            if not cand["files"]:
                continue
            u = dict(best_u, dataset=cand)
            ok, rr = fails(u)
            if ok:
                best_u, best_r = u, rr
                progress = True
                break
    return best_u, best_r


# ---------------------------------------------------------------------------
def main(prop, argv=None):
    run = CheckRun(prop, argv)
    if run.replay:
        return replay(run, prop)
    units = build_units(prop, run.tier, run.seed, run.scale, run.findings)
    with core.Pool(WORLD, run.nproc) as pool:
        results = pool.map(units)
        stats: dict = {}
        faults: dict = {}
        probes = {"custom_mapping": 0, "async_sequencing": 0,
                  "multi_workflow": 0, "diagrams_with_gates": 0,
                  "listing_order_permutations": 0, "undecided_language": 0,
                  "exhaustive_histories": 0, "runs_no_ingest": 0,
                  "runs_unique_graphs": 0, "runs_save_events": 0,
                  "runs_reingest": 0, "histories_len": {}}
        distinct = set()
        states = set()
        samples = []
        new_v: dict = {}
        n_proc = 0
        sim_ns = 0
        for u, r in zip(units, results):
            st = r.get("status", "?")
            stats[st] = stats.get(st, 0) + 1
            if st != "ok":
                run.harness_error(f"{prop}:{u['idx']}: {st} "
                                  f"{str(r.get('detail'))[:300]}")
                continue
            for e in r["errs"]:
                if e[0] == "harness":
                    run.harness_error(f"{r['id']}: {e[1]}")
            for k, v in r["faults"].items():
                faults[k] = faults.get(k, 0) + v
            probes["custom_mapping"] += r["mapping"]
            sim_ns += r.get("sim_ns", 0) or 0
            if prop == "C14":
                n_proc += len(r.get("processes", []))
                probes["async_sequencing"] += r["async"]
                probes["multi_workflow"] += len(r["workflows"]) > 1
                probes["diagrams_with_gates"] += r.get("gates", 0) > 0
                probes["listing_order_permutations"] += r.get(
                    "fs_permuted", 0)
                probes["undecided_language"] += r.get("undecided", 0)
                if r["n_traces"] >= 2 and (r.get("gates", 0) > 0 or len(
                        r["workflows"]) > 1):
                    distinct.add(r["id"])
                states.add(r.get("log_digest"))
                if len(samples) < 2 and r.get("gates", 0) > 0:
                    samples.append({
                        "dataset": r["id"], "workflows": r["workflows"],
                        "traces": r["n_traces"], "files": r["n_files"],
                        "batch_size": r["batch_size"],
                        "custom_mapping": r["mapping"], "async": r["async"],
                        "faults": r["faults"],
                        "processes": r["processes"],
                        "diagrams": r.get("pumls"),
                        "log_digest": r.get("log_digest")})
            else:
                h = u["history"]
                n_proc += len(r.get("runs", []))
                probes["exhaustive_histories"] += bool(u.get("exhaustive"))
                probes["histories_len"][str(len(h))] = probes[
                    "histories_len"].get(str(len(h)), 0) + 1
                for k, x in enumerate(h):
                    probes["runs_no_ingest"] += not x["ingest"]
                    probes["runs_unique_graphs"] += x["ug"]
                    probes["runs_save_events"] += x["se"]
                    probes["runs_reingest"] += bool(k and x["ingest"])
                if len(h) >= 2:
                    distinct.add((r["id"], fl(h)))
                states.add(r.get("state_digest"))
                if len(samples) < 3 and len(h) >= 3 and not u.get(
                        "exhaustive"):
                    samples.append({
                        "dataset": r["id"], "history": fl(h),
                        "legend": "i/n ingest or -ni, u -ug, s -se",
                        "traces": r["n_traces"], "faults": r["faults"],
                        "runs": r.get("runs"),
                        "log_digest": r.get("log_digest")})
            for cls in classes(r):
                key = vkey(prop, u, r, cls)
                if core.match_known(prop, key, run.findings):
                    run.violation(key, "")
                else:
                    ident = (r["id"], cls) if prop == "C14" else (
                        r["id"], cls, fl(u["history"]))
                    new_v.setdefault(ident, (u, r))
        # report at most one violation per (class) after the first few, keep
        # the shortest history of each class first
        order = sorted(new_v.items(), key=lambda kv: (
            len(kv[1][0].get("history", [])), str(kv[0])))
        seen_cls: dict = {}
        for ident, (u, r) in order:
            cls = ident[1]
            seen_cls[cls] = seen_cls.get(cls, 0) + 1
            if seen_cls[cls] > 3:
                continue
            detail = [e for e in r["errs"] if e[0] == cls][0][1]
            if seen_cls[cls] == 1:
                mu, mr = minimise(pool, prop, u, r, cls)
                chk = pool.map([mu])[0]
                if cls not in classes(chk) or chk.get(
                        "log_digest") != mr.get("log_digest"):
                    mu = dict(u, dataset=wc.gen_dataset(prop, u["idx"]))
                    mr = r
            else:
                mu = dict(u, dataset=wc.gen_dataset(prop, u["idx"]))
                mr = r
            pay = {"kind": u["kind"], "violation_class": cls, "unit": mu,
                   "hash_seed": core.hash_seed_of_class(u["hash_class"]),
                   "digest": mr.get("log_digest"), "original": r["id"],
                   "detail": mr["errs"][:6]}
            if prop == "C15":
                pay["history"] = fl(mu["history"])
                pay["runs"] = mr.get("runs")
            run.violation(vkey(prop, u, r, cls),
                          f"{r['id']}"
                          + (f" history [{fl(u['history'])}]"
                             if prop == "C15" else "")
                          + f": {cls}: {detail[:240]}", pay)
    cov = {
        "evaluations": len(units),
        "distinct_nontrivial": len(distinct),
        "rule": (
            "one evaluation = one data set pushed through three routes of "
            "real CLI processes (otel2puml | otel2pv -se then pv2puml per "
            "workflow | in-memory otel_to_pv); distinct = data-set ids; "
            "non-trivial = >=2 traces and (a learned diagram with a gate or "
            ">=2 workflows)" if prop == "C14" else
            "one evaluation = one history of 1-4 otel2pv processes over one "
            "SQLite file and one input directory; distinct = (data set, flag "
            "history); non-trivial = >=2 runs"),
        "samples": samples,
        "statuses": stats,
        "faults_fired": dict(faults, process_restarts=n_proc - len(units)),
        "probes": probes,
        "simulated_processes": n_proc,
        "simulated_time_ns": sim_ns,
        "distinct_outcome_digests": len(states),
        "seeds": {"VERIF_SEED": run.seed, "dataset_salt": wc.DATA_SALT},
    }
    if prop == "C15":
        cov["exhaustive_note"] = (
            "for the data sets marked exhaustive every flag history of "
            "length <= 3 (first run ingests) was executed: 292 per data set")
    run.finish(cov, ASSUMPTIONS)


def replay(run, prop):
    pay = json.load(open(run.replay))
    with core.Pool(WORLD, 1) as pool:
        r = pool.map([pay["unit"]])[0]
    cls = classes(r)
    print(f"# replay classes={cls} digest_equal="
          f"{r.get('log_digest') == pay.get('digest')}")
    if pay["violation_class"] in cls:
        print(f"VIOLATION property={prop} replay={run.replay}")
        raise SystemExit(1)
    raise SystemExit(0)
