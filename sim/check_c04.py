"""C04: updating a saved model equals learning from all data at once.
History = learner processes separated by restarts; only <job>_model.json (and
the .puml) survive.  DESIGN.md section 4 / C04."""
from __future__ import annotations

import copy
import itertools
import json
import random

from . import core, gen_defs, grid, puml_sem
from .driver import CheckRun, scaled
from . import checks_learner as cl

WORLD = "world_learner"
PROP = "C04"
SIZES = {"quick": (150, 3), "thorough": (900, 8)}
SMALL = 6  # exhaustive split points up to this many delivered jobs

ASSUMPTIONS = cl.ASSUMPTIONS + [
    "each step of a history is the real CLI handler (pv2puml -im/-om) in its "
    "own forked process; only files in the output directory survive",
    "the one-shot reference run uses the same hash class and uuid stream base",
    "otel2puml histories: every trace lies wholly inside one chunk, "
    "time_buffer 0, no unique-graph filtering (both would legitimately change "
    "which traces a run learns from); the newest model file of every workflow "
    "is passed with -im to every later run",
]


# ---- second world: histories of otel2puml -om / -im runs over OTel data with
# several workflows (job names) per run (sim/world_cli.py, kind "c04o") ------
N_C04O = 1500
SIZES_O = {"quick": 96, "thorough": N_C04O}
N_C04O_SPECIAL = 600     # world_cli.SPECIAL_BASE + i: special workflow names
SIZES_O_SPECIAL = {"quick": 24, "thorough": N_C04O_SPECIAL}


def c04o_unit(i: int) -> dict:
    return {"kind": "c04o", "idx": i, "hash_class": i % 16,
            "uuid_seed": core.grid("c04o-uuid", i) % 2**32,
            "n_chunks": 2 + core.grid("c04o-n", i) % 2,
            "chunk_seed": core.grid("c04o-chunk", i) % 2**32,
            "biased": core.grid("c04o-bias", i) % 3 == 0,
            "same_out": core.grid("c04o-out", i) % 2 == 0,
            "same_db": core.grid("c04o-db", i) % 3 == 0,
            "wall": 1500}


def classes_o(r: dict) -> list[str]:
    return sorted({e[0] for e in r.get("errs", []) if e[0] != "harness"})


def minimise_o(pool, unit, rec, cls, budget=40):
    from . import checks_cli, world_cli

    ds = unit.get("dataset") or world_cli.gen_dataset("C04o", unit["idx"])
    best_u = dict(unit, dataset=copy.deepcopy(ds), assign=rec["assign"])
    best_r = rec
    spent = 0

    def fails(u):
        nonlocal spent
        spent += 1
        rr = pool.map([u])[0]
        return cls in classes_o(rr), rr

    for flag in ("same_db", "same_out"):
        if best_u.get(flag) and spent < budget:
            ok, rr = fails(dict(best_u, **{flag: False}))
            if ok:
                best_u, best_r = dict(best_u, **{flag: False}), rr
    if best_u["n_chunks"] == 3 and spent < budget:
        u = dict(best_u, n_chunks=2, assign={
            t: min(c, 1) for t, c in best_u["assign"].items()})
        ok, rr = fails(u)
        if ok:
            best_u, best_r = u, rr
    progress = True
    while progress and spent < budget:
        progress = False
        for cand in checks_cli.ds_candidates(best_u["dataset"]):
            if spent >= budget:
                break
            cand = checks_cli._prune(cand)
            live = {best_u["assign"][t] for t in cand["traces"]}
            if not cand["files"] or len(live) < best_u["n_chunks"]:
                continue
            u = dict(best_u, dataset=cand)
            ok, rr = fails(u)
            if ok:
                best_u, best_r = u, rr
                progress = True
                break
    return best_u, best_r


def phase_otel2puml(run: CheckRun) -> dict:
    """C04 on the otel2puml route.  Returns the coverage record."""
    n = scaled(SIZES_O[run.tier], run.scale)
    r0 = random.Random(core.derive(run.seed, PROP, "c04o"))
    idxs = sorted(r0.sample(range(N_C04O), min(n, N_C04O)))
    from . import world_cli

    ns = scaled(SIZES_O_SPECIAL[run.tier], run.scale)
    idxs += [world_cli.SPECIAL_BASE + i for i in sorted(
        r0.sample(range(N_C04O_SPECIAL), min(ns, N_C04O_SPECIAL)))]
    units = [c04o_unit(i) for i in idxs]
    cov = {"histories": len(units), "statuses": {}, "undecided": 0,
           "processes": 0, "nontrivial": 0, "samples": [],
           "faults_fired": {"process_restart_between_chunks": 0,
                            "model_loaded_without_new_data_for_its_job": 0,
                            "several_models_loaded_in_one_run": 0,
                            "shared_output_directory": 0,
                            "store_file_shared_across_runs": 0,
                            "listing_order_permuted": 0}}
    with core.Pool("world_cli", run.nproc) as pool:
        results = pool.map(units)
        new_v: dict = {}
        for u, r in zip(units, results):
            st = r.get("status", "?")
            cov["statuses"][st] = cov["statuses"].get(st, 0) + 1
            if st != "ok" or any(e[0] == "harness"
                                 for e in r.get("errs", [])):
                run.harness_error(f"C04o:{u['idx']}: {st} "
                                  f"{[e for e in r.get('errs', [])][:2]} "
                                  f"{str(r.get('detail'))[:200]}")
                continue
            cov["undecided"] += r.get("undecided", 0)
            cov["processes"] += len(r.get("processes", []))
            ff = cov["faults_fired"]
            ff["process_restart_between_chunks"] += max(
                0, len(r.get("step_status", [])) - 1)
            ff["model_loaded_without_new_data_for_its_job"] += r.get(
                "models_loaded_without_new_data", 0)
            ff["several_models_loaded_in_one_run"] += (
                len(r.get("pumls", [])) > 1)
            ff["shared_output_directory"] += bool(r.get("same_out"))
            ff["store_file_shared_across_runs"] += bool(r.get("same_db"))
            ff["listing_order_permuted"] += (r.get("fs_permuted", 0) or 0) > 0
            if r.get("gates", 0) >= 1 and len(r.get("workflows", [])) >= 2:
                cov["nontrivial"] += 1
                if len(cov["samples"]) < 2:
                    cov["samples"].append({
                        "dataset": r["id"], "workflows": r["workflows"],
                        "traces": r["n_traces"], "chunk_of_trace": r["assign"],
                        "history": r["processes"],
                        "same_output_directory": r["same_out"],
                        "same_store_file": r["same_db"],
                        "log_digest": r.get("log_digest")})
            for cls in classes_o(r):
                key = {"dataset": f"C04o:{u['idx']}", "violation_class": cls}
                if core.match_known(PROP, key, run.findings):
                    run.violation(key, "")
                else:
                    new_v.setdefault((u["idx"], cls), (u, r))
        for k, ((i, cls), (u, r)) in enumerate(sorted(new_v.items())):
            mu, mr = (minimise_o(pool, u, r, cls) if k < 3 else
                      (dict(u, assign=r["assign"]), r))
            run.violation(
                {"dataset": f"C04o:{i}", "violation_class": cls},
                f"otel2puml history on data set C04o:{i}: {cls}: "
                f"{next((e[1] for e in mr['errs'] if e[0] == cls), '')}"[:300],
                {"kind": "c04o", "violation_class": cls, "unit": mu,
                 "digest": mr.get("log_digest"),
                 "history": mr.get("processes"),
                 "hash_seed": core.hash_seed_of_class(u["hash_class"]),
                 "detail": mr.get("errs")})
    return cov


def c04_unit(wid: str, sid: int, cuts=None, bias=False, use_folder=False,
             same_out=None):
    u = grid.learn_unit(wid, sid)
    u["kind"] = "c04"
    u["present"]["derive"]["subsample"] = False
    u["kmax_in"] = 2
    u["cuts"] = cuts
    u["cut_seed"] = core.grid("cuts", wid, sid)
    u["bias"] = bias
    u["use_folder"] = use_folder
    # half of the grid points reuse one output directory for all chunks
    u["same_out"] = (core.grid("c04-sameout", wid, sid) % 2 == 0
                     if same_out is None else same_out)
    # the job name (-jn) is part of the schedule: the model file is named
    # after it (' ' -> '_') and records it
    u["job_name"] = ["x", "Example Sequence", "job [1]", "a b c"][
        core.grid("c04-jobname", wid, sid) % 4]
    u["wall"] = 1500
    return u


def n_jobs_of(wid: str, cap=60) -> int | None:
    try:
        n = 0
        for _ in puml_sem.executions(gen_defs.load_workload(wid), kmax=2,
                                     cap=cap * 50):
            n += 1
            if n > cap:
                return None
        return n
    except (puml_sem.TooMany, puml_sem.Unsupported):
        return None


def violation_classes(r: dict) -> list[str]:
    out = []
    if r.get("status") != "ok":
        return out
    if r.get("ref_status") != "ok":
        return out  # no reference diagram: C01's business, counted undecided
    ss = r.get("step_status", [])
    if any(s != "ok" for s in ss):
        bad = [s for s in ss if s != "ok"][0]
        if bad.startswith("harness"):
            return out
        return ["chunked-run-fails:" + bad]
    if not r.get("roundtrip_ok"):
        out.append("model-roundtrip")
    ref, fin = r.get("ref"), r.get("fin")
    if ref and fin:
        if ref.get("parse") == "ok" and fin.get("parse") != "ok":
            out.append("chunked-unparseable")
        elif ref.get("parse") == "ok":
            if ref["names"] != fin["names"]:
                out.append("names-differ")
            if (ref["lang"] is not None and fin["lang"] is not None
                    and ref["lang"] != fin["lang"]):
                out.append("language-differs")
    if r.get("ref_model") is not None and r.get("fin_model") is not None:
        if r["ref_model"] != r["fin_model"]:
            out.append("model-differs")
    return out


def log_digest(r: dict) -> str:
    return core.digest({k: r.get(k) for k in (
        "status", "ref_status", "step_status", "roundtrip_ok", "ref", "fin",
        "cuts")} | {"m": core.digest(r.get("fin_model"))})


N_GEN_C04 = 1200      # C04 universe: corpus + gen(i), i < N_GEN_C04
C04_SIDS = list(range(8))   # schedules 0..7 of the grid


def grid_units(w: str, s: int, n: int) -> list[dict]:
    """All C04 units of grid point (workload, schedule): every split into 2
    and 3 chunks when at most SMALL jobs are delivered, one seeded split
    otherwise.  bias / folder are fixed per grid point."""
    fl = grid.schedule_flags(s)
    ndel = n + (1 if fl["dup"] else 0)
    bias = core.grid("c04-bias", w, s) % 10 < 4
    folder = core.grid("c04-folder", w, s) % 10 < 3
    if ndel <= SMALL:
        return [c04_unit(w, s, list(cuts), bias, folder)
                for k in (1, 2)
                for cuts in itertools.combinations(range(1, ndel), k)]
    return [c04_unit(w, s, None, bias, folder)]


def universe():
    for w in ["corpus:" + f for f in gen_defs.corpus_files()]:
        yield w
    for i in range(N_GEN_C04):
        if not gen_defs.excluded_by(gen_defs.gen_def(i)):
            yield f"gen:{i}"


def build_units(tier, seed, scale, findings):
    nw, ns = SIZES[tier]
    nw = scaled(nw, scale)
    units = []
    for f in findings:
        if f["property"] == PROP and f.get("status") == "known":
            for w, s in f.get("inputs", []):
                n = n_jobs_of(w)
                if n:
                    units += grid_units(w, s, n)
    r0 = random.Random(core.derive(seed, PROP, "workloads"))
    wids = list(universe())
    corpus = [w for w in wids if w.startswith("corpus:")]
    gens = [w for w in wids if not w.startswith("corpus:")]
    r0.shuffle(gens)
    count = 0
    for w in corpus + gens:
        if count >= nw:
            break
        n = n_jobs_of(w)
        if n is None or n < 2:
            continue
        count += 1
        r = random.Random(core.derive(seed, PROP, "sids", w))
        for s in sorted(r.sample(C04_SIDS, min(ns, len(C04_SIDS)))):
            units += grid_units(w, s, n)
    seen = set()
    out = []
    for u in units:
        k = (u["wid"], u["sched"], tuple(u["cuts"] or ()))
        if k not in seen:
            seen.add(k)
            out.append(u)
    return out


def main(argv=None):
    run = CheckRun(PROP, argv)
    if run.replay:
        return replay(run)
    units = build_units(run.tier, run.seed, run.scale, run.findings)
    with core.Pool(WORLD, run.nproc) as pool:
        results = pool.map(units)
        stats: dict = {}
        distinct = set()
        samples = []
        probes = {"reload_with_absent_event_types": 0, "loaded_events": 0,
                  "three_chunks": 0, "two_chunks": 0, "exhaustive_splits": 0,
                  "folder_listing_permuted": 0, "reference_failed": 0,
                  "undecided_language": 0}
        sim_ns = 0
        new_v: dict = {}
        for u, r in zip(units, results):
            st = r.get("status", "?")
            stats[st] = stats.get(st, 0) + 1
            if st.startswith("harness") or "harness_error" in r:
                run.harness_error(f"{u['wid']} s{u['sched']}: {st}")
                continue
            if st != "ok":
                continue
            for s in r.get("step_status", []) + [r.get("ref_status")]:
                if s and s.startswith("harness"):
                    run.harness_error(f"{u['wid']} s{u['sched']}: step {s}")
            sim_ns += r.get("sim_ns", 0)
            probes["reload_with_absent_event_types"] += r.get(
                "absent_in_later_chunk", 0) > 0
            probes["loaded_events"] += r.get("probes", {}).get(
                "loaded_events", 0)
            probes["three_chunks"] += len(r.get("cuts", [])) == 2
            probes["two_chunks"] += len(r.get("cuts", [])) == 1
            probes["exhaustive_splits"] += u.get("cuts") is not None
            probes["folder_listing_permuted"] += r.get("fs_permuted", 0) > 0
            if r.get("ref_status") != "ok":
                probes["reference_failed"] += 1
            if r.get("ref") and r.get("fin") and (
                    r["ref"].get("lang") is None
                    or r["fin"].get("lang") is None):
                probes["undecided_language"] += 1
            f = r.get("features", {})
            if sum(f.values()) >= 1 and r.get("n_jobs", 0) >= 2:
                distinct.add((u["wid"], u["sched"], tuple(r.get("cuts", [])),
                              u.get("bias")))
            if len(samples) < 3 and sum(f.values()) >= 1 and r.get("fin"):
                samples.append({
                    "workload": u["wid"], "schedule": u["sched"],
                    "definition": puml_sem.show(
                        gen_defs.load_workload(u["wid"])),
                    "delivered_jobs": r["n_jobs"], "cuts": r["cuts"],
                    "bias": u.get("bias"), "use_folder": u.get("use_folder"),
                    "same_output_directory": u.get("same_out"),
                    "history": ["learn(all) -> reference"] + [
                        f"restart; pv2puml chunk{j}"
                        + (" -im model" if j else "") + " -om -> "
                        + s for j, s in enumerate(r["step_status"])],
                    "final_equals_reference": r["fin"] == r["ref"],
                    "log_digest": log_digest(r),
                })
            for cls in violation_classes(r):
                key = {"workload": u["wid"], "schedule": u["sched"],
                       "violation_class": cls}
                if core.match_known(PROP, key, run.findings):
                    run.violation(key, "")
                else:
                    new_v.setdefault((u["wid"], cls), (u, r))
        for n, ((w, cls), (u, r)) in enumerate(sorted(new_v.items())):
            mu, mr = (minimise(pool, u, r, cls) if n < 4
                      else (explicit(u, r), r))
            pay = {"kind": "c04", "violation_class": cls, "unit": mu,
                   "digest": log_digest(mr),
                   "definition": puml_sem.show(mu["ast"]),
                   "cuts": mr.get("cuts"),
                   "reference_diagram": (mr.get("ref_text") or "").split("\n"),
                   "chunked_diagram": (mr.get("fin_text") or "").split("\n"),
                   "detail": {k: mr.get(k) for k in (
                       "ref_status", "step_status", "roundtrip_ok",
                       "roundtrip_detail", "ref", "fin")}}
            run.violation(
                {"workload": w, "violation_class": cls},
                f"{w} schedule {u['sched']} cuts {mr.get('cuts')}: {cls}", pay)
    cov_o = phase_otel2puml(run)
    cov = {
        "evaluations": len(units) + cov_o["histories"],
        "distinct_nontrivial": len(distinct) + cov_o["nontrivial"],
        "rule": "one evaluation = one history (one-shot reference process + "
                "2-3 chunk processes with a restart and a model file between "
                "them); distinct = (workload, schedule, cut positions, bias); "
                "non-trivial = definition has a fork or loop and >=2 jobs "
                "(otel2puml histories: >=1 gate learnt and >=2 workflows)",
        "otel2puml_histories": cov_o,
        "samples": samples,
        "statuses": stats,
        "simulated_time_ns": sim_ns,
        "simulated_processes": sum(
            1 + len(r.get("step_status", [])) for r in results)
        + cov_o["processes"],
        "faults_fired": {
            "process_restart_between_chunks": sum(
                max(0, len(r.get("step_status", [])) - 1) for r in results),
            "listing_order_permuted": probes["folder_listing_permuted"],
        },
        "probes": probes,
        "seeds": {"VERIF_SEED": run.seed, "grid_salt": core.GRID_SALT},
    }
    run.finish(cov, ASSUMPTIONS)


def explicit(u, r):
    e = copy.deepcopy(u)
    e["ast"] = u.get("ast") or gen_defs.load_workload(u["wid"])
    if r.get("present"):
        e["present"] = r["present"]
    if r.get("cuts") is not None:
        e["cuts"] = r["cuts"]
    e["hash_seed"] = core.hash_seed_of_class(u["hash_class"])
    return e


def minimise(pool, u, r, cls, budget=60):
    best_u, best_r = explicit(u, r), r
    spent = 0

    def fails(x):
        nonlocal spent
        spent += 1
        rr = pool.map([x])[0]
        return cls in violation_classes(rr), rr

    # simpler presentation
    x = copy.deepcopy(best_u)
    x["present"] = {"order": None, "event_perm_seed": None,
                    "rename_seed": None, "ts_shift_s": 0,
                    "dup_same_ids": False}
    x["bias"] = False
    x["use_folder"] = False
    n = n_jobs_of_ast(x["ast"])
    if n and n >= 2:
        for cuts in [[c] for c in range(1, n)]:
            if spent >= budget:
                break
            x["cuts"] = cuts
            ok, rr = fails(x)
            if ok:
                best_u, best_r = explicit(x, rr), rr
                break
    # shrink definition, trying every 2-chunk split of the smaller sample
    progress = True
    while progress and spent < budget:
        progress = False
        for cand in cl.shrink_candidates(best_u["ast"]):
            if spent >= budget:
                break
            if not cl.valid_f(cand) or gen_defs.excluded_by(cand):
                continue
            n = n_jobs_of_ast(cand)
            if not n or n < 2 or n > 12:
                continue
            hit = False
            for c in range(1, n):
                if spent >= budget:
                    break
                x = copy.deepcopy(best_u)
                x["ast"] = cand
                x["wid"] = "ast"
                x["present"]["order"] = None
                x["cuts"] = [c]
                ok, rr = fails(x)
                if ok:
                    best_u, best_r = explicit(x, rr), rr
                    hit = True
                    break
            if hit:
                progress = True
                break
    return best_u, best_r


def n_jobs_of_ast(ast, cap=60):
    try:
        n = 0
        for _ in puml_sem.executions(ast, kmax=2, cap=cap * 50):
            n += 1
            if n > cap:
                return None
        return n
    except (puml_sem.TooMany, puml_sem.Unsupported):
        return None


def replay(run: CheckRun):
    pay = json.load(open(run.replay))
    if pay.get("kind") == "c04o":
        with core.Pool("world_cli", 1) as pool:
            r = pool.map([pay["unit"]])[0]
        cls = classes_o(r)
        print(f"# replay classes={cls} digest_equal="
              f"{r.get('log_digest') == pay.get('digest')}")
        if pay["violation_class"] in cls:
            print(f"VIOLATION property={PROP} replay={run.replay}")
            raise SystemExit(1)
        raise SystemExit(0)
    with core.Pool(WORLD, 1) as pool:
        r = pool.map([pay["unit"]])[0]
    cls = violation_classes(r)
    print(f"# replay classes={cls} digest_equal="
          f"{log_digest(r) == pay.get('digest')}")
    if pay["violation_class"] in cls:
        print(f"VIOLATION property={PROP} replay={run.replay}")
        raise SystemExit(1)
    raise SystemExit(0)
