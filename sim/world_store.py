"""World S: the span store and the pipeline around it (DESIGN.md 2.3, 3.3).

A scenario is an explicit operation list: knobs, then a sequence of simulated
otel2pv processes over one SQLite file, each delivering an explicit list of
spans through the OTELDataSource seam (the simulated transport: duplicates,
reordering, lost parents, late delivery, mislabelled workflow names), the
last one running the real cleaning -> unique graphs -> streaming ->
sequencing pipeline.  The store model (first delivery wins, links of the
winners, window from what this process delivered) is evaluated in lock step
and compared with rows read straight from SQLite."""
from __future__ import annotations

import json
import os
import random
import shutil
import sqlite3
import tempfile

from . import core, seams as seams_mod

SHM = "/dev/shm" if os.path.isdir("/dev/shm") else None
MIN = 60 * 10**9
T0 = 1_700_000_000 * 10**9
HORIZON = 100 * MIN
SCEN_SALT = "otel2puml-verif-scen-v1"
LARGE_BASE = 100_000     # scenario indices >= LARGE_BASE: large-scale family
MANY_FROM = 400
MIXED_BASE = 200_000     # scenario indices >= MIXED_BASE: combined fault kinds
# scenario indices >= LATE_BASE: a combined-fault scenario re-cut into a
# history of processes in which the *last* (cleaning) process only ingests
# the late part of the capture: its window is [its own min start + buffer,
# its own max end - buffer], so traces stored by earlier processes lie
# outside it even with time_buffer 0
LATE_BASE = 300_000
# scenario indices >= GROW_BASE: a history of two *pipeline* processes (each
# ingests, cleans and selects unique graphs) in which spans are delivered late:
# traces that were complete trees in the first run receive further descendant
# spans in the second run, so their shape changes between the runs
GROW_BASE = 400_000


def preload():
    seams_mod.quiet()
    import tel2puml.otel_to_pv.otel_to_pv  # noqa: F401
    import tel2puml.otel_to_pv.ingest_otel_data  # noqa: F401
    import tel2puml.otel_to_pv.sequence_otel  # noqa: F401


# ---------------------------------------------------------------------------
# scenario generator (explicit operation list)
# ---------------------------------------------------------------------------
def gen_scenario(prop: str, idx: int) -> dict:
    """Deterministic scenario idx of the fixed grid for a property focus."""
    rng = random.Random(core.derive(SCEN_SALT, prop, idx))
    focus = prop
    # indices from LARGE_BASE on: the same scenario generator at the scale of
    # the default batch size (a thousand and more spans per flush batch, wide
    # call trees) - thresholds such as 999 / 1000 bound variables or rows per
    # page are invisible to the small scenarios
    large = LARGE_BASE <= idx < MIXED_BASE
    # LARGE_BASE + MANY_FROM on: instead of a few dozen wide traces, more
    # than a thousand small ones (more candidate roots than one page of
    # 999 / 1000 rows), most of one shape and a few shapes carried by a
    # single trace somewhere in the store
    many = LARGE_BASE + MANY_FROM <= idx < MIXED_BASE
    # indices from MIXED_BASE on: fault kinds combine inside one trace (a
    # trace with a lost parent or outside the window that also carries
    # several workflow names)
    mixed = idx >= MIXED_BASE
    # MIXED_BASE + 1000 on: additionally clock skew inside a trace (a child
    # span that starts before, or in the same nanosecond as, its root) and,
    # for C10, duplicates that carry another trace id
    skewed = idx >= MIXED_BASE + 1000
    # realistic nanosecond clock: the ingestion period does not start or end
    # on a round number (window borders are then not exactly representable
    # as floats)
    T0_ = T0 + rng.randint(1, 999)
    HORIZON_ = HORIZON + rng.randint(1, 999)
    buf = rng.choice([0, 0, 1, 5, 10])
    if focus == "C10":
        buf = 0
    n_names = rng.randint(1, 4 if focus == "C12" else 3)
    names = ["WA", "WB", "WC", "WD"][:n_names]
    labels = "ABCDE"

    def rand_shape(depth=0):
        t = rng.choice(labels)
        if large and not many:
            kids = ([] if depth >= 2 else
                    [rand_shape(depth + 1)
                     for _ in range(rng.choice([0, 2, 5, 9, 12]))])
            return (t, kids)
        kids = ([] if depth >= 2 else
                [rand_shape(depth + 1)
                 for _ in range(rng.choice([0, 0, 1, 2, 3]))])
        return (t, kids)

    def near_miss(shape):
        """one label or one edge different"""
        t, kids = shape
        mode = rng.choice(["label", "drop", "add", "deep"])
        if mode == "label" or (mode in ("drop", "deep") and not kids):
            return (rng.choice([c for c in labels if c != t]), kids)
        if mode == "drop":
            i = rng.randrange(len(kids))
            return (t, kids[:i] + kids[i + 1:])
        if mode == "add":
            return (t, kids + [(rng.choice(labels), [])])
        i = rng.randrange(len(kids))
        return (t, kids[:i] + [near_miss(kids[i])] + kids[i + 1:])

    shapes = [rand_shape() for _ in range(rng.randint(1, 4))]
    if focus == "C09":
        shapes += [near_miss(rng.choice(shapes))
                   for _ in range(rng.randint(0, 2))]
    traces = []
    anchor_name = names[0]
    traces.append(dict(id="anchor", name=anchor_name, kind="anchor", spans=[
        dict(id="anchor-r", trace="anchor", type="R", parent=None, st=T0_,
             en=T0_ + HORIZON_, name=anchor_name, app="app"),
        dict(id="anchor-c", trace="anchor", type="X", parent="anchor-r",
             st=T0_ + HORIZON_ // 2, en=T0_ + HORIZON_ // 2 + 1000,
             name=anchor_name, app="app")]))
    kinds = {
        "C09": ["ok"] * 6 + ["outside", "dangling", "straddle", "edge"],
        "C10": ["ok"],
        "C11": ["ok", "ok", "dangling", "outside", "straddle", "badname",
                "dangling-root", "edge"],
        "C12": ["ok"] * 5 + ["badname", "dangling"],
    }[focus]
    n_traces = rng.randint(1, 9 if focus in ("C09", "C12") else 7)
    if large:
        n_traces = rng.randint(25, 45)
    if many:
        n_traces = rng.randint(1150, 2300)
        shapes += [rand_shape() for _ in range(rng.randint(2, 8))]
    for k in range(n_traces):
        tid = f"t{k}"
        name = rng.choice(names)
        shape = rng.choice(shapes)
        kind = rng.choice(kinds)
        if many:
            shape = shapes[0] if rng.random() < 0.97 else rng.choice(shapes)
            if rng.random() < 0.9:
                kind = "ok"
        if kind == "outside" and buf == 0:
            kind = "ok"
        also_bad = mixed and kind != "badname" and rng.random() < 0.5
        span_len = 1000
        if kind == "outside":
            if rng.random() < 0.5:
                base = T0_ + rng.randint(0, max(0, buf * MIN - 5000))
            else:
                base = T0_ + HORIZON_ - buf * MIN + 1 + rng.randint(
                    0, max(0, buf * MIN - 5000))
            span_len = 1000
        elif kind == "straddle":
            if rng.random() < 0.5:
                base = T0_ + max(0, buf * MIN - 500)
            else:
                base = T0_ + HORIZON_ - buf * MIN - 500
            span_len = 2000
        elif kind == "edge":
            # exactly one timestamp of the trace lies exactly on a window
            # edge (the window is closed: docs/user/Config.md)
            base = T0_  # fixed up below
        else:
            base = T0_ + buf * MIN + rng.randint(
                1, HORIZON_ - 2 * buf * MIN - 10**6)
        sp = []
        cnt = [0]

        def emit(node, parent, st):
            i = cnt[0]
            cnt[0] += 1
            sid = f"{tid}-{i}"
            kids = list(node[1])
            rng.shuffle(kids)  # sibling order differs between traces
            nm = name
            if (kind == "badname" or also_bad) and parent is not None \
                    and rng.random() < .5:
                nm = rng.choice([n for n in names + ["WX"] if n != name])
            d = dict(id=sid, trace=tid, type=node[0], parent=parent, st=st,
                     en=st + max(1, span_len // (i + 1)), name=nm, app="app")
            sp.append(d)
            for j, kd in enumerate(kids):
                emit(kd, sid, st + 1 + j)

        emit(shape, None, base)
        if (skewed and kind in ("ok", "badname", "dangling") and len(sp) > 1
                and base - T0_ - buf * MIN > 25 and rng.random() < 0.6):
            for d in rng.sample(sp[1:], rng.randint(1, min(2, len(sp) - 1))):
                d["st"] = sp[0]["st"] - rng.choice([0, 0, 1, 7, 20])
        if kind == "edge":
            lo_w, hi_w = T0_ + buf * MIN, T0_ + HORIZON_ - buf * MIN
            if rng.random() < 0.5:
                # everything ends at the lower edge at the latest
                for d in sp:
                    d["en"] = lo_w - (0 if d is sp[0] else 1 + len(sp))
                    d["st"] = max(T0_, d["en"] - 10)
                if buf == 0:
                    sp[0]["st"] = sp[0]["en"] = lo_w
                    for d in sp[1:]:
                        d["st"] = d["en"] = lo_w
            else:
                for d in sp:
                    d["st"] = hi_w + (0 if d is sp[0] else 1)
                    d["en"] = min(T0_ + HORIZON_, d["st"] + 10)
                if buf == 0:
                    for d in sp:
                        d["st"] = d["en"] = hi_w
        if kind == "outside":
            hi = base + span_len
            for d in sp:
                d["st"] = min(d["st"], hi)
                d["en"] = min(d["en"], hi)
            # keep it strictly outside the window
            lo_w, hi_w = T0_ + buf * MIN, T0_ + HORIZON_ - buf * MIN
            if any(lo_w <= d["st"] <= hi_w or lo_w <= d["en"] <= hi_w
                   for d in sp):
                kind = "straddle"
        lost = []
        if kind == "dangling":
            if len(sp) > 1:
                victim = rng.choice(sp[1:])
                victim["parent"] = "lost-" + tid
            else:
                sp[0]["parent"] = "lost-" + tid
        if kind == "dangling-root":
            # the parent span itself is lost in transport
            if len(sp) > 1:
                lost = [sp[0]["id"]]
            else:
                sp[0]["parent"] = "lost-" + tid
        if also_bad and any(d["name"] != name for d in sp):
            kind += "+badname"
        traces.append(dict(id=tid, name=name, kind=kind, spans=sp, lost=lost))
    # ---- transport -------------------------------------------------------
    stream = [s for t in traces for s in t["spans"]
              if s["id"] not in t.get("lost", [])]
    mode = rng.choice(["inorder", "children-first", "interleave",
                       "interleave"])
    if mode == "children-first":
        stream = [s for t in traces for s in reversed(t["spans"])
                  if s["id"] not in t.get("lost", [])]
    elif mode == "interleave":
        rng.shuffle(stream)
    faults = {"dup_same_batch": 0, "dup_later": 0, "dup_payload_differs": 0,
              "dup_parent_differs": 0, "dup_later_process": 0,
              "child_before_parent": 0, "late_span": 0}
    n_dup = rng.randint(0, 6 if focus == "C10" else 3)
    bs = rng.choice([1, 2, 3, 5, 1000])
    if focus == "C10":
        bs = rng.choice([1, 2, 3, 4, 5, 7, 10**6])
    if large:
        bs = rng.choice([500, 999, 1000, 1000, 1001, 1024, 2500, 10**6])
    if many:
        bs = rng.choice([999, 1000, 1001, 2500, 2500, 5000, 5000, 10**6,
                         10**6])
    later_process_dups = []
    for _ in range(n_dup):
        src_i = rng.randrange(len(stream))
        d = dict(stream[src_i])
        d["dup"] = True
        if rng.random() < 0.5:
            d["type"] = "DUP"
            faults["dup_payload_differs"] += 1
        if focus == "C10" and skewed and rng.random() < 0.4:
            others = sorted({s["trace"] for s in stream} - {d["trace"]})
            if others:
                d["trace"] = rng.choice(others)
                faults["dup_trace_differs"] = faults.get(
                    "dup_trace_differs", 0) + 1
        if focus == "C10" and rng.random() < 0.3:
            cands = [s["id"] for s in stream if s["trace"] == d["trace"]
                     and s["id"] != d["id"]] + [None]
            d["parent"] = rng.choice(cands)
            faults["dup_parent_differs"] += 1
        where = rng.choice(["adjacent", "far", "process"])
        if where == "adjacent":
            pos = src_i + 1 + rng.randint(0, max(0, min(bs, 3) - 1))
            stream.insert(min(pos, len(stream)), d)
        elif where == "far":
            stream.insert(rng.randrange(src_i + 1, len(stream) + 1), d)
        else:
            later_process_dups.append(d)
    # split into processes
    n_proc = rng.choice([1, 1, 2, 3]) if focus in ("C10", "C11") else \
        rng.choice([1, 1, 1, 2])
    if later_process_dups:
        n_proc = max(n_proc, 2)
    procs = []
    if n_proc == 1:
        procs.append({"deliver": stream})
    else:
        # anchor always travels with the last (pipeline) process
        anchor = [s for s in stream if s["trace"] == "anchor"]
        rest = [s for s in stream if s["trace"] != "anchor"]
        cuts = sorted(rng.randint(0, len(rest)) for _ in range(n_proc - 1))
        parts = []
        prev = 0
        for c in cuts + [len(rest)]:
            parts.append(rest[prev:c])
            prev = c
        last = parts[-1] + later_process_dups
        # anchor deliveries keep their relative order (a differing duplicate
        # must not overtake the first occurrence)
        pos = sorted(rng.randrange(len(last) + 1) for _ in anchor)
        for k, (ps, a) in enumerate(zip(pos, anchor)):
            last.insert(ps + k, a)
        if rng.random() < 0.5:
            # re-deliver an earlier part completely in the last process
            # ("re-ingesting the same files")
            last = last + [dict(s, dup=True) for s in parts[0]]
        for p in parts[:-1]:
            procs.append({"deliver": p})
        procs.append({"deliver": last})
    scen = {
        "id": f"{prop}:{idx}", "focus": focus, "batch_size": bs,
        "time_buffer": buf, "mode": mode, "processes": procs,
        "kinds": [t["kind"] for t in traces],
        # C10 observes the rows after ingestion only; its streams may contain
        # duplicates with a different parent, which can turn a trace into a
        # non-tree that the rest of the pipeline is not specified for
        "pipeline": focus != "C10",
    }
    # stream filters (C12)
    tids = [t["id"] for t in traces]
    filt = {}
    for nme in names + ["WX"]:
        if rng.random() < 0.6:
            filt[nme] = sorted(rng.sample(tids, rng.randint(1, len(tids))))
    scen["stream_filter"] = filt
    scen["filter_names"] = sorted(rng.sample(names, rng.randint(1,
                                                                len(names))))
    if focus == "C12" and idx >= MIXED_BASE + 1000:
        # cancellation fault: a consumer opens a stream, reads a little and
        # abandons it (generator closed) right before one of the checked
        # streams of the same holder; "same" = the very filter of the checked
        # stream (a retry)
        ar = random.Random(core.derive(SCEN_SALT, prop, idx, "abandon"))
        scen["abandon"] = [
            {"before": tgt,
             "with": ar.choice(["none", "unique", "filter", "names", "same",
                                "same"]),
             "jobs": ar.choice([0, 1, 1, 2, 5])}
            for tgt in ("stream", "stream_unique", "stream_filter",
                        "stream_names", "pv") if ar.random() < 0.5]
    if idx >= GROW_BASE:
        _grow(scen, random.Random(core.derive(SCEN_SALT, prop, idx, "grow")))
    elif idx >= LATE_BASE:
        _late_window(scen, random.Random(core.derive(SCEN_SALT, prop, idx,
                                                     "late")),
                     T0_, HORIZON_, anchor_name)
    return scen


def _grow(scen: dict, rng) -> None:
    flat = [s for p in scen["processes"] for s in p["deliver"]]
    first: dict = {}
    for s in flat:
        first.setdefault(s["id"], s)
    parents = {s["parent"] for s in first.values() if s["parent"]}
    by_trace: dict = {}
    for s in first.values():
        by_trace.setdefault(s["trace"], []).append(s)
    late_ids = set()
    moved = set()
    for t, sp in sorted(by_trace.items()):
        if t == "anchor":
            continue
        leaves = [x["id"] for x in sp if x["id"] not in parents
                  and x["parent"]]
        r = rng.random()
        if leaves and r < 0.6:
            late_ids.update(rng.sample(leaves, rng.randint(
                1, min(2, len(leaves)))))
        elif r > 0.85:
            moved.add(t)          # a whole trace that only arrives in run 2
    p0 = [s for s in flat if s["id"] not in late_ids
          and s["trace"] not in moved]
    p1 = [dict(s, dup=True) for s in flat if s["trace"] == "anchor"
          and not s.get("dup")]
    p1 += [s for s in flat if s["id"] in late_ids or s["trace"] in moved]
    scen["processes"] = [{"deliver": p0, "pipeline": True},
                         {"deliver": p1}]
    scen["grow"] = {"late_spans": sorted(late_ids), "moved": sorted(moved)}


def _late_window(scen: dict, rng, t0: int, horizon: int, name: str) -> None:
    """Re-cut the deliveries of a scenario: earlier processes ingest the
    anchor and the early traces, the last process ingests a second anchor
    [S, end of capture] (always in its own window, so the window of the last
    process is the same whichever traces are later removed) and only traces
    that lie wholly inside [S, end]."""
    flat = [s for p in scen["processes"] for s in p["deliver"]]
    by_trace: dict = {}
    for s in flat:
        by_trace.setdefault(s["trace"], []).append(s)
    starts = sorted(min(x["st"] for x in sp)
                    for t, sp in by_trace.items() if t != "anchor")
    end = t0 + horizon
    if starts:
        split = starts[len(starts) // 2] - rng.choice([0, 1, 1000])
    else:
        split = t0 + horizon // 2
    split = max(t0 + 1, min(split, end - 30 * MIN))
    late = {t for t, sp in by_trace.items() if t != "anchor" and all(
        split <= x["st"] <= end and split <= x["en"] <= end for x in sp)}
    # some late traces are nevertheless ingested by an earlier process
    for t in sorted(late):
        if rng.random() < 0.25:
            late.discard(t)
    anchor2 = [
        dict(id="anchor2-r", trace="anchor2", type="R", parent=None,
             st=split, en=end, name=name, app="app"),
        dict(id="anchor2-c", trace="anchor2", type="X", parent="anchor2-r",
             st=split + (end - split) // 2,
             en=split + (end - split) // 2 + 1000, name=name, app="app")]
    last = [s for s in flat if s["trace"] in late]
    for k, a in enumerate(anchor2):
        last.insert(min(len(last), rng.randrange(len(last) + 1) + k), a)
    if last.index(anchor2[0]) > last.index(anchor2[1]) and \
            scen.get("mode") == "inorder":
        i, j = last.index(anchor2[0]), last.index(anchor2[1])
        last[i], last[j] = last[j], last[i]
    early = [s for s in flat if s["trace"] not in late]
    n_early = rng.choice([1, 1, 2])
    if n_early == 2 and len(early) > 1:
        c = rng.randint(1, len(early) - 1)
        parts = [early[:c], early[c:]]
    else:
        parts = [early]
    scen["processes"] = [{"deliver": p} for p in parts] + [{"deliver": last}]
    scen["kinds"] = list(scen.get("kinds", [])) + ["anchor2"]
    scen["late_window"] = {"split": split, "late_traces": sorted(late)}


# ---------------------------------------------------------------------------
# model (spec-level, DESIGN.md 3.3)
# ---------------------------------------------------------------------------
class Model:
    def __init__(self):
        self.first: dict[str, dict] = {}

    def deliver(self, spans):
        for s in spans:
            if s["id"] not in self.first:
                self.first[s["id"]] = s

    def nodes(self):
        return sorted(
            [s["id"], s["trace"], s["name"], s["type"], s["parent"] or None,
             s["st"], s["en"], s["app"]] for s in self.first.values())

    def links(self):
        return sorted([s["parent"], s["id"]] for s in self.first.values()
                      if s["parent"])

    def by_trace(self):
        out: dict[str, list] = {}
        for s in self.first.values():
            out.setdefault(s["trace"], []).append(s)
        return out

    def clean(self, delivered_now, buf):
        """Returns (kept traces: tid -> spans with propagated root name,
        removed trace ids with reason)."""
        mn = min(s["st"] for s in delivered_now)
        mx = max(s["en"] for s in delivered_now)
        lo, hi = mn + buf * MIN, mx - buf * MIN
        keep, removed = {}, {}
        for tid, sp in self.by_trace().items():
            broken = any(s["parent"] and s["parent"] not in self.first
                         for s in sp)
            inwin = any(lo <= s["st"] <= hi or lo <= s["en"] <= hi
                        for s in sp)
            if broken:
                removed[tid] = "broken"
            elif not inwin:
                removed[tid] = "outside"
            else:
                roots = [s for s in sp if not s["parent"]]
                rn = roots[0]["name"] if len(roots) == 1 else None
                keep[tid] = [dict(s, name=rn if rn is not None else s["name"])
                             for s in sp]
        return keep, removed


def shape_of(spans):
    kids: dict = {}
    for s in spans:
        kids.setdefault(s["parent"] or None, []).append(s)
    root = [s for s in spans if not s["parent"]][0]

    def rec(s):
        return (s["type"], tuple(sorted(rec(c)
                                        for c in kids.get(s["id"], []))))

    return rec(root)


# ---------------------------------------------------------------------------
# the real store, one simulated process at a time
# ---------------------------------------------------------------------------
def _proc(arg: dict) -> dict:
    """One otel2pv process: ingest through the real IngestData; the last
    process also cleans, selects unique graphs, streams and sequences."""
    core.silence_child_output()
    from tel2puml.otel_to_pv.data_holders.sql_data_holder.sql_dataholder \
        import SQLDataHolder
    from tel2puml.otel_to_pv.data_holders.sql_data_holder import \
        sql_dataholder as sdh
    from tel2puml.otel_to_pv.config import SQLDataHolderConfig
    from tel2puml.otel_to_pv.otel_to_pv_types import OTelEvent
    from tel2puml.otel_to_pv.data_sources.base import OTELDataSource
    from tel2puml.otel_to_pv.ingest_otel_data import IngestData
    from tel2puml.otel_to_pv.sequence_otel import (
        sequence_otel_job_id_streams)

    class Transport(OTELDataSource):
        def __init__(self, spans):
            self.it = iter(spans)

        def __next__(self):
            s = next(self.it)
            return OTelEvent(
                job_name=s["name"], job_id=s["trace"], event_type=s["type"],
                event_id=s["id"], start_timestamp=s["st"],
                end_timestamp=s["en"], application_name=s["app"],
                parent_event_id=s["parent"])

    probes = {"fallback": 0, "root_pages": 0, "commits": 0}
    real_fb = SQLDataHolder.check_and_filter_non_unique_nodes_and_associations

    def fb(self):
        probes["fallback"] += 1
        return real_fb(self)

    SQLDataHolder.check_and_filter_non_unique_nodes_and_associations = fb
    real_commit = SQLDataHolder.commit_batched_data_to_database

    def cm(self):
        probes["commits"] += 1
        return real_commit(self)

    SQLDataHolder.commit_batched_data_to_database = cm
    real_roots = sdh.get_root_nodes

    def gr(*a, **k):
        r = real_roots(*a, **k)
        if r:
            probes["root_pages"] += 1
        return r

    sdh.get_root_nodes = gr
    crash = arg.get("crash")
    if crash:
        # non-gating fault (DESIGN 2.4): the process dies at the k-th flush,
        # either before anything of the batch is committed or between the
        # commit of the nodes and the commit of their associations
        target = (SQLDataHolder.batch_insert_node_models
                  if crash["phase"] == "before"
                  else SQLDataHolder.batch_insert_node_associations)
        name = target.__name__
        calls = [0]

        def dying(self, *a, **k):
            calls[0] += 1
            if calls[0] == crash["at"]:
                os._exit(137)
            return target(self, *a, **k)

        setattr(SQLDataHolder, name, dying)
    res: dict = {"probes": probes}
    h = SQLDataHolder(SQLDataHolderConfig(
        db_uri=f"sqlite:///{arg['db']}", batch_size=arg["batch_size"],
        time_buffer=arg["time_buffer"]))
    IngestData(Transport(arg["deliver"]), h).load_to_data_holder()

    def snapshot():
        c = sqlite3.connect(arg["db"])
        try:
            return {
                "nodes": sorted(list(r) for r in c.execute(
                    "select event_id, job_id, job_name, event_type, "
                    "parent_event_id, start_timestamp, end_timestamp, "
                    "application_name from nodes").fetchall()),
                "assoc": sorted(list(r) for r in c.execute(
                    "select parent_id, child_id from NODE_ASSOCIATION"
                ).fetchall()),
            }
        finally:
            c.close()

    res["after_ingest"] = snapshot()
    if not arg.get("pipeline"):
        return res
    # sequencing of the store as ingested (before cleaning): traces that
    # cannot be materialised are skipped, every other one is sequenced
    raw = []
    gen = h.stream_data()
    try:
        for name, jobs in gen:
            for job in sequence_otel_job_id_streams(jobs):
                evs = list(job)
                raw.append([name, evs[0]["jobId"] if evs else None,
                            sorted(e["eventId"] for e in evs)])
        res["pv_raw"] = sorted(raw)
    except Exception as e:  # observed, not judged (see evaluate)
        res["pv_raw_exc"] = type(e).__name__
    finally:
        # an abandoned stream would keep its cursor (and a table lock) open
        import gc

        name = jobs = None
        gen.close()
        gc.collect()
        h.session.close()
    h.remove_inconsistent_jobs()
    h.remove_jobs_outside_of_time_window()
    h.update_job_names_by_root_span()
    res["after_clean"] = snapshot()
    uq = h.find_unique_graphs()
    res["unique"] = {k: sorted(v) for k, v in uq.items()}

    def consume(gen):
        out = []
        for name, jobs in gen:
            js = []
            for job in jobs:
                js.append(sorted(
                    [e.event_id, e.job_id, e.job_name, e.parent_event_id,
                     sorted(e.child_event_ids or [])] for e in job))
            out.append([name, js])
        return out

    flt = {k: set(v) for k, v in arg["stream_filter"].items()}
    fnames = set(arg["filter_names"])

    def open_stream(kind):
        if kind == "unique":
            return h.stream_data(uq)
        if kind == "filter":
            return h.stream_data(flt)
        if kind == "names":
            return h.stream_data(None, fnames)
        return h.stream_data()

    same = {"stream": "none", "stream_unique": "unique",
            "stream_filter": "filter", "stream_names": "names", "pv": "none"}

    def abandon(target):
        for op in arg.get("abandon") or []:
            if op["before"] != target:
                continue
            kind = same[target] if op["with"] == "same" else op["with"]
            g = open_stream(kind)
            try:
                for _name, jobs in g:
                    left = op["jobs"]
                    for job in jobs:
                        if left <= 0:
                            break
                        list(job)
                        left -= 1
                    break
            finally:
                g.close()
            probes["abandoned_streams"] = probes.get(
                "abandoned_streams", 0) + 1

    abandon("stream")
    res["stream"] = consume(open_stream("none"))
    abandon("stream_unique")
    res["stream_unique"] = consume(open_stream("unique"))
    abandon("stream_filter")
    res["stream_filter"] = consume(open_stream("filter"))
    abandon("stream_names")
    res["stream_names"] = consume(open_stream("names"))
    abandon("pv")
    pv = []
    for name, jobs in h.stream_data():
        for job in sequence_otel_job_id_streams(jobs):
            pv.append(sorted(
                [e["eventId"], e["jobId"], e["jobName"], e["eventType"],
                 e["timestamp"], sorted(e.get("previousEventIds", [])),
                 e["applicationName"]] for e in job))
    res["pv"] = sorted(pv)
    return res


def run_processes(scen: dict, db: str) -> list[dict]:
    outs = []
    n = len(scen["processes"])
    for i, p in enumerate(scen["processes"]):
        arg = {"db": db, "batch_size": scen["batch_size"],
               "time_buffer": scen["time_buffer"], "deliver": p["deliver"],
               "pipeline": (i == n - 1 and scen.get("pipeline", True))
               or bool(p.get("pipeline")),
               "crash": p.get("crash"),
               "stream_filter": scen.get("stream_filter", {}),
               "filter_names": scen.get("filter_names", []),
               "abandon": scen.get("abandon")}
        try:
            st, val = core.run_forked(_proc, arg, wall_limit=400)
        except core.ChildTimeout:
            outs.append({"status": "harness-timeout"})
            break
        if st == "ok":
            val["status"] = "ok"
            outs.append(val)
        elif st == "exit:137" and p.get("crash"):
            outs.append({"status": "crashed"})
        elif st == "exc":
            outs.append({"status": "exception", "exc": val["exc"],
                         "msg": val["msg"], "tb": val["tb"][-1200:]})
            break
        else:
            outs.append({"status": "harness-" + st})
            break
    return outs


def evaluate(scen: dict, outs: list[dict]) -> dict:
    """Lock-step comparison with the model.  Returns errors per property."""
    errs = {"C09": [], "C10": [], "C11": [], "C12": []}
    m = Model()
    info: dict = {}
    for i, (p, o) in enumerate(zip(scen["processes"], outs)):
        if o["status"] != "ok":
            cls = ("harness" if o["status"].startswith("harness")
                   else "exception:" + o.get("exc", "?"))
            for k in errs:
                errs[k].append([cls, f"process {i}: {o.get('msg', '')[:200]}"])
            return {"errs": errs, "info": info}
        m.deliver(p["deliver"])
        if o["after_ingest"]["nodes"] != m.nodes():
            got = {r[0]: r for r in o["after_ingest"]["nodes"]}
            exp = {r[0]: r for r in m.nodes()}
            lost = sorted(set(exp) - set(got))
            extra = sorted(set(got) - set(exp))
            diff = sorted(k for k in set(exp) & set(got) if exp[k] != got[k])
            cls = ("span-lost" if lost else "span-extra" if extra
                   else "not-first-occurrence")
            errs["C10"].append([cls, f"process {i}: lost={lost[:4]} "
                                f"extra={extra[:4]} differ={diff[:4]}"])
        if o["after_ingest"]["assoc"] != m.links():
            got = {tuple(x) for x in o["after_ingest"]["assoc"]}
            exp = {tuple(x) for x in m.links()}
            errs["C10"].append(
                ["link-lost" if exp - got else "link-extra",
                 f"process {i}: lost={sorted(exp - got)[:4]} "
                 f"extra={sorted(got - exp)[:4]}"])
        if p.get("pipeline") and i < len(scen["processes"]) - 1 \
                and "after_clean" in o:
            # an earlier run that also cleaned: its removals and renamings
            # are durable
            keep0, _rem0 = m.clean(p["deliver"], scen["time_buffer"])
            m.first = {s["id"]: s for sp in keep0.values() for s in sp}
            if o["after_clean"]["nodes"] != m.nodes():
                errs["C11"].append(["early-run-cleaning",
                                    f"process {i}: store after cleaning "
                                    "differs from the model"])
    last = outs[-1]
    if "after_clean" not in last:
        return {"errs": errs, "info": info}
    delivered_now = scen["processes"][-1]["deliver"]
    keep, removed = m.clean(delivered_now, scen["time_buffer"])
    info["removed"] = removed
    info["kept"] = sorted(keep)
    exp_nodes = sorted(
        [s["id"], s["trace"], s["name"], s["type"], s["parent"] or None,
         s["st"], s["en"], s["app"]] for sp in keep.values() for s in sp)
    if last["after_clean"]["nodes"] != exp_nodes:
        got = {r[0]: r for r in last["after_clean"]["nodes"]}
        exp = {r[0]: r for r in exp_nodes}
        lost = sorted({exp[k][1] for k in set(exp) - set(got)})
        extra = sorted({got[k][1] for k in set(got) - set(exp)})
        diff = sorted(k for k in set(exp) & set(got) if exp[k] != got[k])
        if extra:
            cls = "trace-not-removed"
        elif lost:
            cls = "trace-wrongly-removed"
        elif any(exp[k][2] != got[k][2] for k in diff):
            cls = "workflow-name"
        else:
            cls = "frame-condition"
        errs["C11"].append([cls, f"wrongly removed={lost[:4]} not removed="
                            f"{extra[:4]} differ={diff[:4]}"])
    # ---- C09 ----------------------------------------------------------
    byname: dict = {}
    for tid, sp in keep.items():
        byname.setdefault(sp[0]["name"], {}).setdefault(
            shape_of(sp), []).append(tid)
    info["shapes"] = {n: len(v) for n, v in byname.items()}
    info["same_shape_groups"] = sum(
        1 for v in byname.values() for t in v.values() if len(t) > 1)
    uq = last["unique"]
    for name, shapes in byname.items():
        sel = uq.get(name, [])
        sel_shapes = []
        for tid in sel:
            if tid not in keep:
                errs["C09"].append(["selected-removed-trace",
                                    f"{name}: {tid}"])
                continue
            if keep[tid][0]["name"] != name:
                errs["C09"].append(["wrong-workflow", f"{name}: {tid}"])
                continue
            sel_shapes.append(shape_of(keep[tid]))
        if len(sel_shapes) != len(set(sel_shapes)):
            errs["C09"].append(["same-shape-selected-twice",
                                f"{name}: {sel}"])
        missing = set(shapes) - set(sel_shapes)
        if missing:
            errs["C09"].append(
                ["shape-not-represented",
                 f"{name}: selected {sel}, groups {list(shapes.values())}"])
    for name in set(uq) - set(byname):
        errs["C09"].append(["extra-workflow", name])
    # ---- C12 ----------------------------------------------------------
    def expect_stream(pred):
        exp: dict = {}
        for tid, sp in keep.items():
            name = sp[0]["name"]
            if not pred(name, tid):
                continue
            exp.setdefault(name, []).append(sorted(
                [s["id"], tid, name, s["parent"] or None,
                 sorted(c["id"] for c in sp if c["parent"] == s["id"])]
                for s in sp))
        return {k: sorted(v) for k, v in exp.items()}

    def check_stream(tag, got, pred):
        names = [n for n, _ in got]
        if len(names) != len(set(names)):
            errs["C12"].append(["workflow-name-repeated", f"{tag}: {names}"])
        exp = expect_stream(pred)
        gotd: dict = {}
        for n, js in got:
            gotd.setdefault(n, []).extend(js)
        gotd = {k: sorted(v) for k, v in gotd.items() if v}
        if gotd != exp:
            gk = {(n, j[0][1]) for n, js in gotd.items() for j in js if j}
            ek = {(n, j[0][1]) for n, js in exp.items() for j in js}
            if ek - gk:
                cls = "trace-not-streamed"
            elif gk - ek:
                cls = "trace-streamed-unexpectedly"
            elif any(len(js) != len(exp[n]) for n, js in gotd.items()):
                cls = "trace-duplicated-or-split"
            else:
                cls = "span-or-link-wrong"
            errs["C12"].append([cls, f"{tag}: missing={sorted(ek - gk)[:4]} "
                                f"unexpected={sorted(gk - ek)[:4]}"])

    check_stream("all", last["stream"], lambda n, t: True)
    check_stream("unique", last["stream_unique"],
                 lambda n, t: t in uq.get(n, []))
    flt = scen.get("stream_filter", {})
    if flt:
        check_stream("filter", last["stream_filter"],
                     lambda n, t: t in flt.get(n, []))
    else:
        check_stream("filter", last["stream_filter"], lambda n, t: True)
    fn = set(scen.get("filter_names", []))
    if fn:
        check_stream("names", last["stream_names"], lambda n, t: n in fn)
    # sequencing before cleaning: every complete, consistently named trace
    # is sequenced exactly once with all its spans, whatever else is stored
    # (an uncleaned store with inconsistent workflow names is outside what
    # the sequencer supports - it raises on the pinned tree - so an exception
    # here is not judged)
    info["pv_raw_exc"] = last.get("pv_raw_exc")
    if "pv_raw" in last:
        got_raw: dict = {}
        for name, jid, ids in last["pv_raw"]:
            got_raw.setdefault(jid, []).append([name, ids])
        for tid, sp in m.by_trace().items():
            names = {s["name"] for s in sp}
            broken = any(s["parent"] and s["parent"] not in m.first
                         for s in sp)
            roots = [s for s in sp if not s["parent"]]
            if broken or len(names) != 1 or len(roots) != 1:
                continue
            exp = [[sp[0]["name"], sorted(s["id"] for s in sp)]]
            if got_raw.get(tid) != exp:
                errs["C12"].append(
                    ["trace-not-sequenced",
                     f"uncleaned store: {tid} expected once with "
                     f"{len(sp)} spans, got {got_raw.get(tid)}"[:300]])
                break
    info["pv"] = last["pv"]
    return {"errs": errs, "info": info}


def _child(unit: dict) -> dict:
    """Execute one scenario (and, for C11, the differential second world)."""
    core.silence_child_output()
    scen = unit.get("scenario") or gen_scenario(unit["prop"], unit["idx"])
    tmp = tempfile.mkdtemp(prefix="verif-store-", dir=SHM)
    try:
        outs = run_processes(scen, os.path.join(tmp, "a.db"))
        ev = evaluate(scen, outs)
        rec = {"id": scen["id"], "errs": ev["errs"],
               "batch_size": scen["batch_size"],
               "time_buffer": scen["time_buffer"],
               "n_processes": len(scen["processes"]),
               "n_spans": sum(len(p["deliver"]) for p in scen["processes"]),
               "kinds": scen.get("kinds", []), "mode": scen.get("mode"),
               "removed": ev["info"].get("removed", {}),
               "shapes": ev["info"].get("shapes", {}),
               "same_shape_groups": ev["info"].get("same_shape_groups", 0),
               "probes": {k: sum(o.get("probes", {}).get(k, 0) for o in outs)
                          for k in ("fallback", "root_pages", "commits",
                                    "abandoned_streams")},
               "state_digest": core.digest(
                   [o.get("after_ingest") for o in outs]
                   + [outs[-1].get("after_clean")]),
               "log_digest": core.digest(
                   [{k: v for k, v in o.items() if k != "probes"}
                    for o in outs])}
        n_dup = sum(1 for p in scen["processes"] for s in p["deliver"]
                    if s.get("dup"))
        rec["n_dup"] = n_dup
        # differential second world for C11: removed traces never delivered
        if unit.get("differential") and ev["info"].get("removed") and all(
                o["status"] == "ok" for o in outs):
            rem = set(ev["info"]["removed"])
            scen_b = json.loads(json.dumps(scen))
            for p in scen_b["processes"]:
                p["deliver"] = [s for s in p["deliver"]
                                if s["trace"] not in rem]
            outs_b = run_processes(scen_b, os.path.join(tmp, "b.db"))
            rec["diff_ran"] = True
            if any(o["status"] != "ok" for o in outs_b):
                rec["errs"]["C11"].append(
                    ["differential-world-failed", str(outs_b[-1])[:300]])
            elif outs_b[-1]["pv"] != outs[-1]["pv"]:
                rec["errs"]["C11"].append(
                    ["pv-sequences-differ",
                     "PV sequences of surviving traces change when the "
                     "removed traces are never delivered"])
        rec["status"] = "ok"
        return rec
    finally:
        shutil.rmtree(tmp, ignore_errors=True)


def _child_crash(unit: dict) -> dict:
    """Non-gating observation (DESIGN 2.4): an ingest process dies at a seeded
    flush - before the batch is committed, or between the commit of the
    nodes and the commit of their associations - and a second process ingests
    the same stream again.  Reports whether the store then equals the model;
    never a verdict of C10 (no given property quantifies over crash points
    inside a run)."""
    core.silence_child_output()
    scen = gen_scenario("C10", unit["idx"])
    stream = [s for p in scen["processes"] for s in p["deliver"]]
    crash = {"at": unit["at"], "phase": unit["phase"]}
    hist = {"id": f"C10-crash:{unit['idx']}:{unit['phase']}:{unit['at']}",
            "batch_size": scen["batch_size"], "time_buffer": 0,
            "pipeline": False,
            "processes": [{"deliver": stream, "crash": crash},
                          {"deliver": stream}]}
    tmp = tempfile.mkdtemp(prefix="verif-crash-", dir=SHM)
    try:
        outs = run_processes(hist, os.path.join(tmp, "a.db"))
        obs = {"id": hist["id"], "phase": unit["phase"], "at": unit["at"],
               "batch_size": scen["batch_size"], "n_spans": len(stream),
               "crashed": bool(outs) and outs[0]["status"] == "crashed",
               "status": "ok"}
        if len(outs) < 2 or outs[-1]["status"] != "ok":
            obs["recovery"] = outs[-1].get("status") + ":" + str(
                outs[-1].get("exc"))
            obs["consistent"] = False
            return obs
        m = Model()
        m.deliver(stream)
        got_n = {r[0] for r in outs[-1]["after_ingest"]["nodes"]}
        exp_n = {r[0] for r in m.nodes()}
        got_l = {tuple(x) for x in outs[-1]["after_ingest"]["assoc"]}
        exp_l = {tuple(x) for x in m.links()}
        obs["recovery"] = "ok"
        obs["lost_nodes"] = len(exp_n - got_n)
        obs["lost_links"] = len(exp_l - got_l)
        obs["extra_links"] = len(got_l - exp_l)
        obs["rows_differ"] = outs[-1]["after_ingest"]["nodes"] != m.nodes()
        obs["consistent"] = not (obs["lost_nodes"] or obs["lost_links"]
                                 or obs["extra_links"] or obs["rows_differ"])
        return obs
    finally:
        shutil.rmtree(tmp, ignore_errors=True)


def run_unit(unit: dict) -> dict:
    if unit.get("kind") == "crash":
        try:
            st, val = core.run_forked(_child_crash, unit, wall_limit=900)
        except core.ChildTimeout:
            return {"status": "harness-timeout"}
        return val if st == "ok" else {"status": "harness-child-" + st,
                                       "detail": val}
    try:
        st, val = core.run_forked(_child, unit, wall_limit=unit.get("wall",
                                                                    1500))
    except core.ChildTimeout:
        return {"status": "harness-timeout"}
    if st == "ok":
        return val
    return {"status": "harness-child-" + st, "detail": val}
