"""Worlds S+L through the real command line handler: C14 (otel2puml == otel2pv
-se followed by pv2puml over the saved files) and C15 (re-running against a
persisted store).  DESIGN.md 2.3 and section 4 (C14, C15).

A *data set* is an explicit description of OTel JSON files (full documents),
the ingest/sequencer configuration and an optional PV key mapping.  A unit
executes a history of simulated processes - each one a forked child calling
`tel2puml.__main__.main_handler` - over durable media only (the input
directory, the SQLite file, the output directories)."""
from __future__ import annotations

import copy
import json
import os
import random
import shutil
import sqlite3
import tempfile

from . import core, puml_sem, seams as seams_mod

SHM = "/dev/shm" if os.path.isdir("/dev/shm") else None
DATA_SALT = "otel2puml-verif-cli-v1"
T0 = 1_700_000_000 * 10**9
LANG_CAP = 30000

PV_KEYS = ["jobId", "eventId", "timestamp", "previousEventIds",
           "applicationName", "jobName", "eventType"]


def preload():
    seams_mod.quiet()
    import tel2puml.__main__  # noqa: F401
    import tel2puml.otel_to_puml  # noqa: F401
    import tel2puml.pv_to_puml.pv_to_puml  # noqa: F401
    import tel2puml.otel_to_pv.otel_to_pv  # noqa: F401
    import yaml  # noqa: F401


# ---------------------------------------------------------------------------
# producer: call-tree templates -> traces -> OTel JSON documents
# ---------------------------------------------------------------------------
def _template(rng, wf_i: int, rich: bool):
    """A call-tree template: root + ordered slots.  slot kinds:
    fixed (one type), alt (one of 2-3 types), each may carry fixed
    grand-children.  `par` marks a slot that overlaps in time with the next
    one (parallel under async sequencing)."""
    n = [0]

    def name():
        n[0] += 1
        return f"{'PQRS'[wf_i]}{n[0]}"

    slots = []
    nslots = rng.randint(2, 4) if rich else rng.randint(1, 3)
    for i in range(nslots):
        kind = rng.choice(["fixed", "fixed", "alt"])
        if kind == "fixed":
            opts = [name()]
        else:
            opts = [name() for _ in range(rng.choice([2, 2, 3]))]
        kids = {o: [name() for _ in range(rng.choice([0, 0, 1, 2]))]
                for o in opts}
        slots.append({"opts": opts, "kids": kids,
                      "par": i < nslots - 1 and rng.random() < 0.3})
    return {"root": name(), "slots": slots}


def _shape(spans):
    kids: dict = {}
    for s in spans:
        kids.setdefault(s.get("parent_span_id"), []).append(s)
    roots = kids.get(None, [])
    if len(roots) != 1:
        return None

    def rec(s):
        return [s["name"], sorted(rec(c) for c in kids.get(s["span_id"], []))]

    return json.dumps(rec(roots[0]))


SPECIAL_BASE = 100_000   # data set indices >= SPECIAL_BASE: special names
# data set indices >= LAYOUT_BASE: ordinary names, but the OTel documents
# reach the data source in another delivery layout (nested directories,
# one JSON document per line, one single file given as `filepath`)
LAYOUT_BASE = 200_000
LAYOUTS = ["nested", "per_line", "per_line_nested", "single_file",
           "single_file_per_line"]


def gen_dataset(prop: str, idx: int) -> dict:
    rng = random.Random(core.derive(DATA_SALT, prop, idx))
    n_wf = rng.choice([1, 2, 2, 3])
    wf_names = ["WFa", "WF b", "WFc"][:n_wf]
    if rng.random() < 0.5:
        wf_names = [w.replace(" ", "") for w in wf_names]
    if SPECIAL_BASE <= idx < LAYOUT_BASE:
        # workflow names with characters that are special to globbing,
        # regular expressions, file systems or text encodings, next to a
        # sibling name such a pattern would match (all legal file names, no
        # two collide after the tool's own ' ' -> '_' file naming)
        n_wf = rng.choice([2, 3, 3])
        wf_names = rng.choice([
            ["svc[a]", "svca", "svc"], ["checkout [v2]", "checkout v",
                                        "checkout 2"],
            ["q?", "qx", "q"], ["w*", "wx", "w.x"], ["a.b", "a-b", "aXb"],
            ["\u00dcn\u00ef c\u00f8d\u00e9", "Uni code", "unicode"],
            ["job (1)", "job 1", "job+1"], ["x{y}", "xy", "x,y"],
            ["50%", "50", "%s"], ["it's", "its", "its!"]])[:n_wf]
        rng.shuffle(wf_names)
    async_flag = rng.random() < 0.5
    templates = [_template(rng, i, rich=True) for i in range(n_wf)]
    traces = []          # {id, wf, kind, spans}
    tcount = 0
    for wi, (wf, tp) in enumerate(zip(wf_names, templates)):
        # cover every alternative of every slot at least once, then random
        n_tr = rng.randint(3, 7)
        choices = []
        maxopts = max(len(s["opts"]) for s in tp["slots"])
        for k in range(maxopts):
            choices.append([s["opts"][k % len(s["opts"])]
                            for s in tp["slots"]])
        # all combinations when small, so the learner sees a complete sample
        import itertools
        combos = list(itertools.product(*[s["opts"] for s in tp["slots"]]))
        if len(combos) <= 6:
            choices = [list(c) for c in combos]
        while len(choices) < n_tr:
            choices.append([rng.choice(s["opts"]) for s in tp["slots"]])
        rng.shuffle(choices)
        for ch in choices:
            tid = f"tr{tcount:03d}"
            tcount += 1
            base = T0 + tcount * 10**9 + rng.randint(0, 10**6)
            spans = []
            cnt = [0]

            def sp(name, parent, st, en):
                sid = f"{tid}-{cnt[0]:02d}"
                cnt[0] += 1
                app = "svc-" + name[0]
                if SPECIAL_BASE + 600 <= idx < LAYOUT_BASE \
                        and rng.random() < 0.3:
                    # present-but-empty application name
                    app = ""
                d = {"trace_id": tid, "span_id": sid, "name": name,
                     "start_time_unix_nano": st, "end_time_unix_nano": en,
                     "attributes": [{"key": "app.service", "value": {
                         "Value": {"StringValue": app}}}]}
                if parent is not None:
                    d["parent_span_id"] = parent
                spans.append(d)
                return sid

            root = sp(tp["root"], None, base, base + 900_000)
            t = base + 1000
            for slot, opt in zip(tp["slots"], ch):
                dur = 50_000
                st = t
                en = st + dur
                c = sp(opt, root, st, en)
                gt = st + 100
                for g in slot["kids"][opt]:
                    sp(g, c, gt, gt + 1000)
                    gt += 2000
                # next slot starts before this one ends when parallel; a
                # parallel pair overlaps in most traces but not in all, so
                # one workflow has traces with the same span names in the
                # same order but different links under async sequencing
                t = st + (dur // 2 if slot["par"] and rng.random() < 0.75
                          else dur + 1000)
            traces.append({"id": tid, "wf": wf, "kind": "ok", "spans": spans})
    # ---- faults placed by the producer / transport --------------------
    faults = {"dangling_parent": 0, "lost_parent_span": 0,
              "duplicate_span": 0, "mislabelled_workflow": 0,
              "trace_split_over_files": 0}
    want_broken = prop == "C15" or rng.random() < 0.4
    if want_broken:
        # one extra trace whose parent span is lost in transport (cleaning
        # must remove it in every run)
        for _ in range(rng.choice([1, 1, 2])):
            src = rng.choice([t for t in traces if t["kind"] == "ok"])
            tid = f"tr{tcount:03d}"
            tcount += 1
            spans = copy.deepcopy(src["spans"])
            for s in spans:
                s["trace_id"] = tid
                s["span_id"] = s["span_id"].replace(src["id"], tid)
                if "parent_span_id" in s:
                    s["parent_span_id"] = s["parent_span_id"].replace(
                        src["id"], tid)
                s["start_time_unix_nano"] += 7 * 10**9
                s["end_time_unix_nano"] += 7 * 10**9
            non_root = [s for s in spans if "parent_span_id" in s]
            if rng.random() < 0.5 and len(non_root) >= 2:
                # drop an inner span that has children, or any child's parent
                parents = {s["parent_span_id"] for s in non_root}
                inner = [s for s in non_root if s["span_id"] in parents]
                if inner:
                    victim = rng.choice(inner)
                    spans = [s for s in spans if s is not victim]
                    faults["lost_parent_span"] += 1
                else:
                    rng.choice(non_root)["parent_span_id"] = "lost-" + tid
                    faults["dangling_parent"] += 1
            else:
                rng.choice(non_root)["parent_span_id"] = "lost-" + tid
                faults["dangling_parent"] += 1
            traces.append({"id": tid, "wf": src["wf"], "kind": "broken",
                           "spans": spans})
    # ---- time buffer: traces wholly inside the buffer zones ------------
    time_buffer = rng.choice([0, 0, 1, 2]) if prop == "C15" else rng.choice(
        [0, 0, 0, 1])
    faults["trace_in_buffer_zone"] = 0
    if time_buffer:
        oks = [t for t in traces if t["kind"] == "ok"]
        for sign in (-1, 1):
            src = rng.choice(oks)
            tid = f"tr{tcount:03d}"
            tcount += 1
            shift = sign * (time_buffer * 60 + 30) * 10**9 + (
                60 * 10**9 if sign > 0 else 0) - (
                src["spans"][0]["start_time_unix_nano"] - T0)
            spans = copy.deepcopy(src["spans"])
            for s_ in spans:
                s_["trace_id"] = tid
                s_["span_id"] = s_["span_id"].replace(src["id"], tid)
                if "parent_span_id" in s_:
                    s_["parent_span_id"] = s_["parent_span_id"].replace(
                        src["id"], tid)
                s_["start_time_unix_nano"] += shift
                s_["end_time_unix_nano"] += shift
            traces.append({"id": tid, "wf": src["wf"], "kind": "outside",
                           "spans": spans})
            faults["trace_in_buffer_zone"] += 1
        # a trace straddling the lower window edge: every span starts before
        # the edge, the root span ends inside the window (must be kept, and
        # selected by -ug: its shape is made different from its source's)
        faults["trace_straddling_window_edge"] = 0
        if rng.random() < 0.7:
            src = rng.choice([t for t in oks if len(t["spans"]) >= 3])\
                if any(len(t["spans"]) >= 3 for t in oks) else None
            if src is not None:
                tid = f"tr{tcount:03d}"
                tcount += 1
                lo = T0 - 30 * 10**9          # = early trace start + buffer
                shift = (lo - 500_000) - src["spans"][0][
                    "start_time_unix_nano"]
                spans = copy.deepcopy(src["spans"])
                parents = {x.get("parent_span_id") for x in spans}
                leaves = [x for x in spans if x["span_id"] not in parents]
                spans.remove(leaves[-1])
                for s_ in spans:
                    s_["trace_id"] = tid
                    s_["span_id"] = s_["span_id"].replace(src["id"], tid)
                    if "parent_span_id" in s_:
                        s_["parent_span_id"] = s_["parent_span_id"].replace(
                            src["id"], tid)
                    s_["start_time_unix_nano"] += shift
                    s_["end_time_unix_nano"] += shift
                if all(x["start_time_unix_nano"] < lo for x in spans) and \
                        spans[0]["end_time_unix_nano"] > lo:
                    traces.append({"id": tid, "wf": src["wf"], "kind": "ok",
                                   "spans": spans})
                    faults["trace_straddling_window_edge"] += 1
    mislabel = {}
    if n_wf > 1 and rng.random() < 0.3:
        t = rng.choice([t for t in traces if t["kind"] == "ok"])
        victim = rng.choice(t["spans"][1:])
        mislabel[victim["span_id"]] = rng.choice(
            [w for w in wf_names if w != t["wf"]])
        faults["mislabelled_workflow"] += 1
    # ---- files --------------------------------------------------------
    n_files = rng.choice([1, 2, 3])
    per_file: list[dict] = [dict() for _ in range(n_files)]  # wf -> spans
    # export order: half of the data sets keep every trace in one file with
    # its spans in emission order (the usual exporter behaviour), the others
    # scatter and shuffle them
    in_order = rng.random() < 0.5
    for t in traces:
        whole = in_order or rng.random() < 0.7
        f0 = rng.randrange(n_files)
        used = set()
        for s in t["spans"]:
            fi = f0 if whole else rng.randrange(n_files)
            used.add(fi)
            wf = mislabel.get(s["span_id"], t["wf"])
            per_file[fi].setdefault(wf, []).append(s)
        if len(used) > 1:
            faults["trace_split_over_files"] += 1
    n_dup = rng.choice([0, 1, 2, 3]) if prop == "C15" else rng.choice(
        [0, 0, 1])
    for _ in range(n_dup):
        fi = rng.randrange(n_files)
        wfs = [w for w in per_file[fi] if per_file[fi][w]]
        if not wfs:
            continue
        w = rng.choice(wfs)
        s = rng.choice(per_file[fi][w])
        fj = rng.randrange(n_files)
        per_file[fj].setdefault(w, []).append(copy.deepcopy(s))
        faults["duplicate_span"] += 1
    files = []
    for fi, groups in enumerate(per_file):
        rs = []
        for wf, spans in groups.items():
            spans = list(spans)
            if not in_order:
                rng.shuffle(spans)
            # one or two resource_spans groups per workflow, 1-2 scopes each
            parts = [spans]
            if not in_order and len(spans) > 2 and rng.random() < 0.4:
                c = rng.randint(1, len(spans) - 1)
                parts = [spans[:c], spans[c:]]
            for part in parts:
                scopes = [part]
                if not in_order and len(part) > 1 and rng.random() < 0.4:
                    c = rng.randint(1, len(part) - 1)
                    scopes = [part[:c], part[c:]]
                rs.append({
                    "resource": {"attributes": [
                        {"key": "service.name",
                         "value": {"Value": {"StringValue": wf}}},
                        {"key": "service.version",
                         "value": {"Value": {"StringValue": "1.0"}}}]},
                    "scope_spans": [{"scope": {"name": f"sc{k}"},
                                     "spans": sc}
                                    for k, sc in enumerate(scopes)]})
        rng.shuffle(rs)
        if rs:
            files.append({"name": f"otel_{fi}.json",
                          "doc": {"resource_spans": rs}})
    # ---- configuration ------------------------------------------------
    seq = {"async_flag": async_flag}
    if rng.random() < 0.3:
        # prior information: two sibling slots of one workflow in one group
        wi = rng.randrange(n_wf)
        tp = templates[wi]
        if len(tp["slots"]) >= 2:
            i = rng.randrange(len(tp["slots"]) - 1)
            grp = {o: "g1" for o in tp["slots"][i]["opts"]
                   + tp["slots"][i + 1]["opts"]}
            seq["async_event_groups"] = {wf_names[wi]: {tp["root"]: grp}}
    if rng.random() < 0.2:
        wi = rng.randrange(n_wf)
        tp = templates[wi]
        slot = rng.choice(tp["slots"])
        seq["event_name_map_information"] = {wf_names[wi]: {tp["root"]: {
            "mapped_event_type": tp["root"] + "x",
            "child_event_types": [slot["opts"][0]]}}}
    mapping = None
    if rng.random() < 0.5:
        ks = list(PV_KEYS)
        mapping = {k: f"{k}_{rng.randrange(100)}" for k in ks}
        kind = rng.random()
        if kind < 0.3:
            # a permutation-like renaming: user names that collide with other
            # application names
            a, b = rng.sample(ks, 2)
            mapping[a], mapping[b] = b + "_u", a + "_u"
        elif kind < 0.65:
            # a partial mapping: some fields keep their default name (every
            # field of PVEventMappingConfig has a default)
            for k in rng.sample(ks, rng.randint(1, 4)):
                del mapping[k]
            if rng.random() < 0.5:
                mapping.pop("previousEventIds", None)
    ds = {
        "id": f"{prop}:{idx}", "files": files, "sequencer": seq,
        "mapping": mapping, "batch_size": rng.choice([1, 2, 3, 5, 1000]),
        "time_buffer": time_buffer,
        "workflows": wf_names,
        "traces": {t["id"]: {"wf": t["wf"], "kind": t["kind"],
                             "shape": _shape(t["spans"])} for t in traces},
        "faults": faults,
    }
    if SPECIAL_BASE + 600 <= idx < LAYOUT_BASE:
        # the application name is mapped from the span attribute alone (with
        # the two-key mapping an empty value still yields "_1.0")
        ds["app_single_key"] = True
    if idx >= LAYOUT_BASE:
        # own PRNG: the content draws above are those of an ordinary data set
        lr = random.Random(core.derive(DATA_SALT, prop, idx, "layout"))
        lay = LAYOUTS[(idx - LAYOUT_BASE) % len(LAYOUTS)]
        ds["layout"] = lay
        if "nested" in lay:
            # sub-directories up to depth 3, two files may share a base name
            dirs = ["", "a", "a/b", "a/b/c", "z", "a/y"]
            for k, f in enumerate(files):
                sub = lr.choice(dirs[1:] if k == 0 else dirs)
                f["subdir"] = sub
                if k and lr.random() < 0.3 and not any(
                        g["subdir"] == sub and g["name"] == files[0]["name"]
                        for g in files[:k]):
                    f["name"] = files[0]["name"]
        if "per_line" in lay:
            # every file is a sequence of documents, one per line: the
            # resource_spans groups of the file are cut into 1..n documents
            for f in files:
                rs = f["doc"]["resource_spans"]
                nd = lr.randint(1, max(1, len(rs)))
                cuts = sorted(lr.sample(range(1, len(rs)), nd - 1)) \
                    if len(rs) > 1 else []
                docs = [rs[a:b] for a, b in zip([0] + cuts,
                                                 cuts + [len(rs)])]
                f["docs"] = [{"resource_spans": d} for d in docs]
        faults["layout_" + lay] = 1
        faults["documents"] = sum(len(f.get("docs", [1])) for f in files)
    return ds


# ---------------------------------------------------------------------------
# durable media
# ---------------------------------------------------------------------------
FIELD_MAPPING = {
    "application_name": {
        "key_paths": [
            "resource_spans.[].scope_spans.[].spans.[].attributes.[].key",
            "resource_spans.[].resource.attributes.[].key"],
        "key_value": ["app.service", "service.version"],
        "value_paths": ["value.Value.StringValue", "value.Value.StringValue"],
        "value_type": "string"},
    "child_event_ids": {
        "key_paths": [
            "resource_spans.[].scope_spans.[].spans.[].child_span_ids"],
        "value_type": "array"},
    "end_timestamp": {
        "key_paths": [
            "resource_spans.[].scope_spans.[].spans.[].end_time_unix_nano"],
        "value_type": "string"},
    "event_id": {
        "key_paths": ["resource_spans.[].scope_spans.[].spans.[].span_id"],
        "value_type": "string"},
    "event_type": {
        "key_paths": ["resource_spans.[].scope_spans.[].spans.[].name"],
        "value_type": "string"},
    "job_id": {
        "key_paths": ["resource_spans.[].scope_spans.[].spans.[].trace_id"],
        "value_type": "string"},
    "job_name": {
        "key_paths": ["resource_spans.[].resource.attributes.[].key"],
        "key_value": ["service.name"],
        "value_paths": ["value.Value.StringValue"],
        "value_type": "string"},
    "parent_event_id": {
        "key_paths": [
            "resource_spans.[].scope_spans.[].spans.[].parent_span_id"],
        "value_type": "string"},
    "start_timestamp": {
        "key_paths": [
            "resource_spans.[].scope_spans.[].spans.[].start_time_unix_nano"],
        "value_type": "string"},
}


SINGLE_FILE = "all spans.json"


def write_inputs(ds: dict, root: str) -> dict:
    import yaml

    data = os.path.join(root, "data")
    os.makedirs(data, exist_ok=True)
    lay = ds.get("layout", "")
    if lay.startswith("single_file"):
        # one file, handed to the data source as `filepath`
        with open(os.path.join(data, SINGLE_FILE), "w") as fh:
            if "per_line" in lay:
                for f in ds["files"]:
                    for d in f["docs"]:
                        fh.write(json.dumps(d) + "\n")
            else:
                json.dump({"resource_spans": [
                    r for f in ds["files"]
                    for r in f["doc"]["resource_spans"]]}, fh)
    else:
        for f in ds["files"]:
            d_ = os.path.join(data, f.get("subdir", ""))
            os.makedirs(d_, exist_ok=True)
            with open(os.path.join(d_, f["name"]), "w") as fh:
                if "per_line" in lay:
                    for d in f["docs"]:
                        fh.write(json.dumps(d) + "\n")
                else:
                    json.dump(f["doc"], fh)
    paths = {"data": data}
    if ds.get("mapping"):
        mp = os.path.join(root, "mapping.yaml")
        with open(mp, "w") as fh:
            yaml.safe_dump(ds["mapping"], fh)
        paths["mapping"] = mp
    return paths


def write_config(ds: dict, root: str, data_dir: str, db_path: str,
                 tag: str) -> str:
    import yaml

    lay = ds.get("layout", "")
    single = lay.startswith("single_file")
    fmap = FIELD_MAPPING
    if ds.get("app_single_key"):
        fmap = dict(FIELD_MAPPING, application_name={
            "key_paths": [FIELD_MAPPING["application_name"]["key_paths"][0]],
            "key_value": ["app.service"],
            "value_paths": ["value.Value.StringValue"],
            "value_type": "string"})
    cfg = {
        "ingest_data": {"data_source": "json", "data_holder": "sql"},
        "data_holders": {"sql": {
            "db_uri": f"sqlite:///{db_path}",
            "batch_size": ds["batch_size"],
            "time_buffer": ds.get("time_buffer", 0)}},
        "data_sources": {"json": {
            "dirpath": None if single else data_dir,
            "filepath": os.path.join(data_dir, SINGLE_FILE) if single
            else None,
            "json_per_line": "per_line" in lay,
            "field_mapping": fmap}},
        "sequencer": ds.get("sequencer", {}),
    }
    p = os.path.join(root, f"config_{tag}.yaml")
    with open(p, "w") as fh:
        yaml.safe_dump(cfg, fh)
    return p


# ---------------------------------------------------------------------------
# one simulated CLI process
# ---------------------------------------------------------------------------
def _cli(arg: dict) -> dict:
    core.silence_child_output()
    sm = seams_mod.Seams(uuid_seed=arg["uuid_seed"],
                         fs_seed=arg.get("fs_seed", 0),
                         clock_origin_s=arg.get("clock_origin_s", 1704067200),
                         step_budget=50000)
    seams_mod.install(sm)
    import tel2puml.otel_to_puml as o2p
    from tel2puml.__main__ import main_handler, ERROR_MESSAGES

    tap: dict = {"stream": None, "unique_calls": 0}
    if arg.get("tap"):
        real = o2p.otel_to_pv

        def tapped(*a, **k):
            gen = real(*a, **k)
            mat = [(name, [list(job) for job in jobs]) for name, jobs in gen]
            tap["stream"] = [[name, [[dict(e) for e in job] for job in jobs]]
                             for name, jobs in mat]
            return iter(mat)

        o2p.otel_to_pv = tapped
    status = "ok"
    import tel2puml.__main__ as mn
    err: dict = {}
    real_he = mn.handle_exception

    def he_spy(e, *a, **k):
        err["error"] = short_error(e)
        return real_he(e, *a, **k)

    mn.handle_exception = he_spy
    try:
        main_handler(dict(arg["args"]), ERROR_MESSAGES)
    except seams_mod.StepBudgetExceeded:
        status = "no-termination"
    except SystemExit as e:
        c = e.code if isinstance(e.code, int) else 1
        status = f"exit:{c}"
    return {"status": status, "error": err.get("error"),
            "tap": tap["stream"], "steps": sm.steps,
            "sim_ns": sm.simulated_ns, "fs_permuted": sm.fs_permuted,
            "uuid_calls": sm.uuid_calls}


def short_error(e: BaseException) -> str:
    """Exception type plus, for database errors, the constraint named."""
    import re

    msg = str(e)
    m = re.search(r"(UNIQUE constraint failed: [\w.]+|no such table: \w+|"
                  r"FOREIGN KEY constraint failed|database is locked)", msg)
    return type(e).__name__ + (":" + m.group(1) if m else "")


def _direct_stream(arg: dict) -> dict:
    """Route C of C14: the in-memory PV stream of otel_to_pv."""
    core.silence_child_output()
    sm = seams_mod.Seams(uuid_seed=arg["uuid_seed"],
                         fs_seed=arg.get("fs_seed", 0))
    seams_mod.install(sm)
    import yaml
    from tel2puml.otel_to_pv.otel_to_pv import otel_to_pv
    from tel2puml.otel_to_pv.config import IngestDataConfig

    cfg = IngestDataConfig(**yaml.safe_load(open(arg["config"])))
    gen = otel_to_pv(cfg, ingest_data=True)
    out = [[name, [[dict(e) for e in job] for job in jobs]]
           for name, jobs in gen]
    return {"status": "ok", "tap": out, "fs_permuted": sm.fs_permuted}


def run_cli(arg: dict, fn=_cli, wall=600) -> dict:
    try:
        st, val = core.run_forked(fn, arg, wall_limit=wall)
    except core.ChildTimeout:
        return {"status": "harness-timeout"}
    if st == "ok":
        return val
    if st.startswith("exit:"):
        return {"status": st}
    if st == "exc":
        return {"status": "harness-exc", "detail": val}
    return {"status": "harness-" + st}


def otel_args(command, cfg, out, ingest=True, ug=False, se=False, mc=None):
    a = {"command": command, "config_file": cfg, "ingest_data": ingest,
         "find_unique_graphs": ug, "output_file_directory": out,
         "debug": False}
    if command == "otel2pv":
        a["save_events"] = se
        a["mapping_config_file"] = mc
    else:
        a["input_puml_models"] = []
        a["output_puml_models"] = False
    return a


def pv2puml_args(folder, job_name, out, mc=None):
    return {"command": "pv2puml", "folder_path": folder, "file_paths": [],
            "job_name": job_name, "group_by_job": False,
            "mapping_config_file": mc, "input_puml_models": [],
            "output_puml_models": False, "output_file_directory": out,
            "debug": False}


# ---------------------------------------------------------------------------
# observations
# ---------------------------------------------------------------------------
def analyse_puml(text: str) -> dict:
    out: dict = {"leaks": puml_sem.placeholder_leaks(text)}
    try:
        puml_sem.parse_strict(text)
        out["strict"] = None
    except puml_sem.StrictError as e:
        out["strict"] = [e.cls, e.msg]
    try:
        _, ast = puml_sem.parse(text)
    except puml_sem.ParseError as e:
        out["parse"] = "unparseable:" + str(e)[:100]
        return out
    out["parse"] = "ok"
    out["names"] = sorted(set(puml_sem.event_name_list(ast)))
    try:
        lang = puml_sem.language(ast, kmax=2, cap=LANG_CAP)
    except puml_sem.Unsupported:
        lang = None
    out["lang"] = None if lang is None else puml_sem.lang_digest(lang)
    out["gates"] = puml_sem.count_kind(ast, ("and", "or", "xor", "loop"))
    return out


def read_saved_pv(out_dir: str, mapping: dict | None) -> dict:
    """Saved PV files mapped back to application keys:
    {workflow: {file name: [events]}}."""
    inv = {v: k for k, v in (mapping or {}).items()}
    res: dict = {}
    if not os.path.isdir(out_dir):
        return res
    for wf in sorted(os.listdir(out_dir)):
        d = os.path.join(out_dir, wf)
        if not os.path.isdir(d):
            continue
        for fn in sorted(os.listdir(d)):
            data = json.load(open(os.path.join(d, fn)))
            res.setdefault(wf, {})[fn] = [
                {inv.get(k, k): v for k, v in e.items()} for e in data]
    return res


def canon_events(jobs) -> list:
    """Canonical, order independent form of a list of PV jobs (each a list
    of event dicts)."""
    out = []
    for job in jobs:
        evs = []
        for e in job:
            prev = e.get("previousEventIds", [])
            if isinstance(prev, str):
                prev = [prev]
            evs.append([e["eventId"], e["jobId"], e["jobName"],
                        e["eventType"], e["timestamp"], e["applicationName"],
                        sorted(prev)])
        out.append(sorted(evs))
    return sorted(out)


def db_rows(db: str) -> dict:
    if not os.path.exists(db):
        return {"nodes": None}
    c = sqlite3.connect(db)
    try:
        return {"nodes": sorted(list(r) for r in c.execute(
            "select event_id, job_id, job_name, event_type, parent_event_id,"
            " start_timestamp, end_timestamp, application_name from nodes")),
                "assoc": len(c.execute(
                    "select * from NODE_ASSOCIATION").fetchall()),
                "hashes": len(c.execute(
                    "select * from job_hashes").fetchall())}
    finally:
        c.close()


# ---------------------------------------------------------------------------
# C14 unit
# ---------------------------------------------------------------------------
def _child_c14(unit: dict) -> dict:
    core.silence_child_output()
    ds = unit.get("dataset") or gen_dataset("C14", unit["idx"])
    rec: dict = {"id": ds["id"], "errs": [], "faults": ds["faults"],
                 "workflows": ds["workflows"],
                 "mapping": bool(ds.get("mapping")),
                 "async": bool(ds["sequencer"].get("async_flag")),
                 "n_traces": len(ds["traces"]), "batch_size": ds["batch_size"],
                 "n_files": len(ds["files"])}
    tmp = tempfile.mkdtemp(prefix="verif-c14-", dir=SHM)
    useed = unit.get("uuid_seed", 1)
    procs = []
    try:
        paths = write_inputs(ds, tmp)
        mc = paths.get("mapping")
        # route A: otel2puml
        cfg_a = write_config(ds, tmp, paths["data"],
                             os.path.join(tmp, "a.db"), "a")
        out_a = os.path.join(tmp, "outA")
        ra = run_cli({"uuid_seed": useed, "fs_seed": useed + 1,
                      "args": otel_args("otel2puml", cfg_a, out_a)})
        procs.append(["otel2puml", ra["status"]])
        # route B: otel2pv -se, then pv2puml per workflow
        cfg_b = write_config(ds, tmp, paths["data"],
                             os.path.join(tmp, "b.db"), "b")
        out_b = os.path.join(tmp, "outB")
        rb = run_cli({"uuid_seed": useed + 2, "fs_seed": useed + 3,
                      "args": otel_args("otel2pv", cfg_b, out_b, se=True,
                                        mc=mc)})
        procs.append(["otel2pv -se" + (" -mc" if mc else ""), rb["status"]])
        saved = read_saved_pv(out_b, ds.get("mapping")) if rb[
            "status"] == "ok" else {}
        out_b2 = os.path.join(tmp, "outB2")
        rb2 = {}
        for k, wf in enumerate(sorted(saved)):
            r = run_cli({"uuid_seed": useed + 10 + k,
                         "fs_seed": useed + 20 + k,
                         "args": pv2puml_args(os.path.join(out_b, wf), wf,
                                              out_b2, mc)})
            rb2[wf] = r
            procs.append([f"pv2puml -fp {wf}" + (" -mc" if mc else ""),
                          r["status"]])
        # route C: in-memory stream
        cfg_c = write_config(ds, tmp, paths["data"],
                             os.path.join(tmp, "c.db"), "c")
        rc = run_cli({"uuid_seed": useed + 4, "fs_seed": useed + 5,
                      "config": cfg_c}, fn=_direct_stream)
        procs.append(["otel_to_pv (in-memory tap)", rc["status"]])
        rec["processes"] = procs
        rec["fs_permuted"] = sum(r.get("fs_permuted", 0) or 0
                                 for r in [ra, rb, rc] + list(rb2.values()))
        rec["sim_ns"] = sum(r.get("sim_ns", 0) or 0
                            for r in [ra, rb] + list(rb2.values()))
        for name, r in [("A", ra), ("B", rb), ("C", rc)] + [
                ("B2:" + w, r) for w, r in rb2.items()]:
            if r["status"].startswith("harness"):
                rec["errs"].append(["harness", f"route {name}: {r['status']} "
                                    f"{str(r.get('detail'))[:300]}"])
        if any(e[0] == "harness" for e in rec["errs"]):
            rec["status"] = "ok"
            return rec
        # ---- oracles ----------------------------------------------------
        exp_wfs = sorted({t["wf"] for t in ds["traces"].values()
                          if t["kind"] == "ok"})
        rec["expected_workflows"] = exp_wfs
        sts = {"A": ra["status"], "B": rb["status"], "C": rc["status"]}
        sts.update({"B2:" + w: r["status"] for w, r in rb2.items()})
        rec["statuses"] = sts
        if rc["status"] != "ok":
            rec["errs"].append(["stream-route-fails", rc["status"]])
        # otel2puml learns the workflows one after the other and stops at
        # the first failure; route B learns each workflow in its own
        # process: A succeeds iff otel2pv and every pv2puml succeed
        a_ok = ra["status"] == "ok"
        b_ok = rb["status"] == "ok" and all(
            r["status"] == "ok" for r in rb2.values())
        if a_ok != b_ok:
            rec["errs"].append(["routes-differ-in-outcome", json.dumps(sts)])
        pumls_a, pumls_b = {}, {}
        if ra["status"] == "ok":
            for fn in sorted(os.listdir(out_a)):
                if fn.endswith(".puml"):
                    pumls_a[fn] = analyse_puml(
                        open(os.path.join(out_a, fn)).read())
        if os.path.isdir(out_b2):
            for fn in sorted(os.listdir(out_b2)):
                if fn.endswith(".puml"):
                    pumls_b[fn] = analyse_puml(
                        open(os.path.join(out_b2, fn)).read())
        rec["pumls"] = sorted(pumls_a)
        rec["gates"] = sum(v.get("gates", 0) for v in pumls_a.values())
        if a_ok and b_ok:
            want = sorted(w.replace(" ", "_") + ".puml" for w in exp_wfs)
            if sorted(pumls_a) != want:
                rec["errs"].append(["workflow-set", f"otel2puml wrote "
                                    f"{sorted(pumls_a)} expected {want}"])
            if sorted(pumls_b) != sorted(pumls_a):
                rec["errs"].append(["workflow-set", f"A {sorted(pumls_a)} "
                                    f"B {sorted(pumls_b)}"])
            for fn in sorted(set(pumls_a) & set(pumls_b)):
                a, b = pumls_a[fn], pumls_b[fn]
                for tag, p in (("A", a), ("B", b)):
                    if p.get("strict") or p.get("leaks") or p.get(
                            "parse") != "ok":
                        rec["errs"].append(
                            ["malformed-diagram", f"{fn} route {tag}: "
                             f"{p.get('strict') or p.get('leaks') or p.get('parse')}"])
                if a.get("parse") == "ok" and b.get("parse") == "ok":
                    if a["names"] != b["names"]:
                        rec["errs"].append(
                            ["diagram-names-differ", f"{fn}: A {a['names']} "
                             f"B {b['names']}"])
                    elif (a["lang"] is not None and b["lang"] is not None
                          and a["lang"] != b["lang"]):
                        rec["errs"].append(
                            ["diagram-language-differs", fn])
                    elif a["lang"] is None or b["lang"] is None:
                        rec["undecided"] = rec.get("undecided", 0) + 1
        # saved files == in-memory stream
        if rb["status"] == "ok" and rc["status"] == "ok":
            stream = {name: jobs for name, jobs in rc["tap"]}
            if sorted(stream) != sorted(saved):
                rec["errs"].append(["saved-workflows-differ",
                                    f"stream {sorted(stream)} files "
                                    f"{sorted(saved)}"])
            for wf in sorted(set(stream) & set(saved)):
                try:
                    a = canon_events(stream[wf])
                    b = canon_events(list(saved[wf].values()))
                except KeyError as e:
                    rec["errs"].append(["saved-field-missing",
                                        f"{wf}: {e}"])
                    continue
                if a != b:
                    rec["errs"].append(
                        ["saved-events-differ",
                         f"{wf}: stream {len(a)} jobs, files {len(b)} jobs; "
                         f"first diff "
                         f"{next(([x, y] for x, y in zip(a, b) if x != y), None)}"
                         [:400]])
                fns = sorted(saved[wf])
                if fns != sorted(f"pv_event_sequence_{i}.json"
                                 for i in range(1, len(fns) + 1)):
                    rec["errs"].append(["saved-file-names", f"{wf}: {fns}"])
            # the stream itself against the producer: every good trace once
            got = sorted(j[0]["jobId"] for jobs in stream.values()
                         for j in jobs if j)
            exp = sorted(t for t, v in ds["traces"].items()
                         if v["kind"] == "ok")
            if got != exp:
                rec["errs"].append(["stream-traces",
                                    f"streamed {got[:6]}.. expected "
                                    f"{exp[:6]}.."])
        rec["log_digest"] = core.digest(
            {"sts": sts, "a": pumls_a, "b": pumls_b,
             "saved": {w: canon_events(list(v.values()))
                       for w, v in saved.items()} if rb["status"] == "ok"
             and not any(e[0] == "saved-field-missing" for e in rec["errs"])
             else None})
        rec["status"] = "ok"
        return rec
    finally:
        shutil.rmtree(tmp, ignore_errors=True)


# ---------------------------------------------------------------------------
# C15 unit: a history of otel2pv runs over one database file
# ---------------------------------------------------------------------------
def _child_c15(unit: dict) -> dict:
    core.silence_child_output()
    ds = unit.get("dataset") or gen_dataset("C15", unit["idx"])
    history = unit["history"]  # list of {ingest, ug, se}
    rec: dict = {"id": ds["id"], "errs": [], "faults": ds["faults"],
                 "history": history, "batch_size": ds["batch_size"],
                 "n_traces": len(ds["traces"]),
                 "mapping": bool(ds.get("mapping"))}
    tmp = tempfile.mkdtemp(prefix="verif-c15-", dir=SHM)
    useed = unit.get("uuid_seed", 1)
    try:
        paths = write_inputs(ds, tmp)
        mc = paths.get("mapping")
        db = os.path.join(tmp, "store.db")
        cfg = write_config(ds, tmp, paths["data"], db, "s")
        runs = []
        for k, h in enumerate(history):
            out = os.path.join(tmp, f"out{k}")
            r = run_cli({"uuid_seed": useed + k, "fs_seed": useed + 50 + k,
                         "tap": True,
                         "args": otel_args("otel2pv", cfg, out,
                                           ingest=h["ingest"], ug=h["ug"],
                                           se=h["se"],
                                           mc=mc if h["se"] else None)})
            obs = {"status": r["status"], "flags": h,
                   "error": r.get("error")}
            if r["status"].startswith("harness"):
                rec["errs"].append(["harness", f"run {k}: {r['status']} "
                                    f"{str(r.get('detail'))[:300]}"])
                runs.append(obs)
                break
            if r["status"] == "ok":
                if h["se"]:
                    saved = read_saved_pv(out, ds.get("mapping"))
                    try:
                        obs["pv"] = {w: canon_events(list(v.values()))
                                     for w, v in saved.items()}
                    except KeyError as e:
                        obs["pv"] = None
                        rec["errs"].append(["saved-field-missing", str(e)])
                    # the tap is exhausted by -se; files are the observation
                else:
                    obs["pv"] = {name: canon_events(jobs)
                                 for name, jobs in (r["tap"] or [])}
                obs["rows"] = db_rows(db)
            runs.append(obs)
        rec["runs"] = [{"status": o["status"], "flags": o["flags"],
                        "error": o.get("error"),
                        "n_jobs": (sum(len(v) for v in o["pv"].values())
                                   if o.get("pv") else None),
                        "rows": ({"nodes": len(o["rows"]["nodes"]),
                                  "assoc": o["rows"]["assoc"],
                                  "hashes": o["rows"]["hashes"]}
                                 if o.get("rows") else None)}
                       for o in runs]
        if any(e[0] == "harness" for e in rec["errs"]):
            rec["status"] = "ok"
            return rec
        # ---- oracles ----------------------------------------------------
        good = {t: v for t, v in ds["traces"].items() if v["kind"] == "ok"}
        shapes_by_wf: dict = {}
        for t, v in good.items():
            shapes_by_wf.setdefault(v["wf"], {}).setdefault(
                v["shape"], []).append(t)
        first_plain = None
        first_rows = None
        for k, o in enumerate(runs):
            fl = _fl(o["flags"])
            if o["status"] != "ok":
                rec["errs"].append(
                    ["run-fails:" + str(o.get("error")),
                     f"run {k} ({fl}) after "
                     f"{[_fl(r['flags']) for r in runs[:k]]}: {o['status']} "
                     f"{o.get('error')}"])
                break
            if o.get("pv") is None:
                continue
            if first_rows is None:
                first_rows = o["rows"]["nodes"]
            elif o["rows"]["nodes"] != first_rows:
                rec["errs"].append(["store-changed",
                                    f"nodes after run {k} differ from run 0"])
            if o["flags"]["ug"]:
                for wf, groups in shapes_by_wf.items():
                    jobs = o["pv"].get(wf, [])
                    sel = [j[0][1] for j in jobs if j]
                    sel_shapes = [good[t]["shape"] for t in sel if t in good]
                    if len(sel) != len(sel_shapes):
                        rec["errs"].append(["selected-unknown-trace",
                                            f"run {k} {wf}: {sel}"])
                    if sorted(sel_shapes) != sorted(groups):
                        rec["errs"].append(
                            ["selected-shapes-differ",
                             f"run {k} ({fl}) {wf}: selected {sel} covering "
                             f"{len(set(sel_shapes))}/{len(groups)} shapes, "
                             f"{len(sel_shapes) - len(set(sel_shapes))} twice"]
                        )
                if set(o["pv"]) - set(shapes_by_wf):
                    rec["errs"].append(["extra-workflow",
                                        f"run {k}: {sorted(o['pv'])}"])
                # the sequences of the selected traces are those of run 0
                if first_plain is not None:
                    for wf, jobs in o["pv"].items():
                        ref = {j[0][1]: j for j in first_plain.get(wf, [])}
                        for j in jobs:
                            if j and ref.get(j[0][1]) != j:
                                rec["errs"].append(
                                    ["pv-sequences-differ",
                                     f"run {k} ({fl}) {wf} {j[0][1]}"])
                                break
            else:
                if first_plain is None:
                    first_plain = o["pv"]
                    # against the producer: every good trace exactly once
                    got = sorted(j[0][1] for jobs in o["pv"].values()
                                 for j in jobs if j)
                    if got != sorted(good):
                        rec["errs"].append(
                            ["stream-traces", f"run {k}: {got[:8]} expected "
                             f"{sorted(good)[:8]}"])
                elif o["pv"] != first_plain:
                    rec["errs"].append(
                        ["pv-sequences-differ",
                         f"run {k} ({fl}) differs from the first run without "
                         f"-ug"])
        rec["log_digest"] = core.digest(
            [{"s": o["status"], "pv": o.get("pv"),
              "rows": o.get("rows")} for o in runs])
        rec["state_digest"] = core.digest([o.get("rows") for o in runs])
        rec["status"] = "ok"
        return rec
    finally:
        shutil.rmtree(tmp, ignore_errors=True)


# ---------------------------------------------------------------------------
# C04 over the otel2puml route: a history of otel2puml -om / -im runs, each
# on one chunk of the traces, several workflows (job names) per run
# ---------------------------------------------------------------------------
def chunk_files(ds: dict, assign: dict, n: int) -> list[list[dict]]:
    """The OTel JSON files of a data set restricted to the traces of chunk
    c (every trace lies wholly inside one chunk; file and group structure,
    duplicates and mislabelled spans are kept)."""
    out: list[list[dict]] = [[] for _ in range(n)]
    for f in ds["files"]:
        for c in range(n):
            rs = []
            for g in f["doc"]["resource_spans"]:
                scopes = []
                for sc in g["scope_spans"]:
                    sp = [s for s in sc["spans"]
                          if assign.get(s["trace_id"]) == c]
                    if sp:
                        scopes.append({"scope": sc["scope"], "spans": sp})
                if scopes:
                    rs.append({"resource": g["resource"],
                               "scope_spans": scopes})
            if rs:
                out[c].append({"name": f["name"],
                               "doc": {"resource_spans": rs}})
    return out


def c04o_assignment(ds: dict, n: int, seed: int, biased: bool) -> dict:
    """trace id -> chunk.  Biased: one workflow's traces all go to the first
    chunk (its model is loaded later with no new evidence at all) when there
    are several workflows; otherwise a seeded spread with no empty chunk."""
    r = random.Random(seed)
    tids = sorted(ds["traces"])
    assign = {t: r.randrange(n) for t in tids}
    wfs = sorted({v["wf"] for v in ds["traces"].values()})
    if biased and len(wfs) > 1:
        w0 = r.choice(wfs)
        for t in tids:
            if ds["traces"][t]["wf"] == w0:
                assign[t] = 0
    for c in range(n):
        if c not in assign.values():
            cands = [t for t in tids
                     if list(assign.values()).count(assign[t]) > 1]
            if cands:
                assign[r.choice(cands)] = c
    return assign


def _child_c04o(unit: dict) -> dict:
    from . import world_learner_ext as wle

    core.silence_child_output()
    ds = unit.get("dataset") or gen_dataset("C04o", unit["idx"])
    ds = dict(ds, time_buffer=0)
    n = unit["n_chunks"]
    assign = unit.get("assign") or c04o_assignment(
        ds, n, unit["chunk_seed"], unit.get("biased", False))
    rec: dict = {"id": ds["id"], "errs": [], "faults": ds["faults"],
                 "workflows": ds["workflows"], "n_chunks": n,
                 "assign": assign, "n_traces": len(ds["traces"]),
                 "same_out": unit["same_out"], "same_db": unit["same_db"],
                 "batch_size": ds["batch_size"],
                 "async": bool(ds["sequencer"].get("async_flag"))}
    tmp = tempfile.mkdtemp(prefix="verif-c04o-", dir=SHM)
    useed = unit.get("uuid_seed", 1)
    r = random.Random(unit["chunk_seed"] + 17)
    try:
        paths = write_inputs(ds, tmp)
        cfg = write_config(ds, tmp, paths["data"],
                           os.path.join(tmp, "ref.db"), "ref")
        out_ref = os.path.join(tmp, "outRef")
        a = otel_args("otel2puml", cfg, out_ref)
        a["output_puml_models"] = True
        ref = run_cli({"uuid_seed": useed, "fs_seed": useed + 1, "args": a})
        rec["ref_status"] = ref["status"]
        procs = [["otel2puml -om (all traces)", ref["status"]]]
        sim_ns = ref.get("sim_ns", 0) or 0
        fs_perm = ref.get("fs_permuted", 0) or 0
        steps = []
        latest_model: dict = {}      # model file name -> path
        latest_puml: dict = {}
        loaded_without_data = 0
        chunks = chunk_files(ds, assign, n)
        for j in range(n):
            droot = os.path.join(tmp, f"chunk{j}")
            os.makedirs(os.path.join(droot, "data"))
            for f in chunks[j]:
                with open(os.path.join(droot, "data", f["name"]), "w") as fh:
                    json.dump(f["doc"], fh)
            db = os.path.join(tmp, "steps.db" if unit["same_db"]
                              else f"step{j}.db")
            cfg_j = write_config(ds, droot, os.path.join(droot, "data"), db,
                                 f"s{j}")
            out_j = os.path.join(tmp, "outS" if unit["same_out"]
                                 else f"outS{j}")
            a = otel_args("otel2puml", cfg_j, out_j)
            models = sorted(latest_model.values())
            r.shuffle(models)
            a["input_puml_models"] = models
            a["output_puml_models"] = True
            before = {}
            if os.path.isdir(out_j):
                before = {fn: core.digest(open(os.path.join(out_j, fn)).read())
                          for fn in os.listdir(out_j)}
            st = run_cli({"uuid_seed": useed + 10 * (j + 1),
                          "fs_seed": useed + 10 * (j + 1) + 1, "args": a})
            steps.append(st["status"])
            procs.append([f"restart; otel2puml chunk{j} -im x{len(models)} "
                          f"-om", st["status"]])
            sim_ns += st.get("sim_ns", 0) or 0
            fs_perm += st.get("fs_permuted", 0) or 0
            if st["status"] != "ok":
                break
            written = set()
            for fn in sorted(os.listdir(out_j)):
                pth = os.path.join(out_j, fn)
                if not os.path.isfile(pth):
                    continue
                if fn.endswith("_model.json"):
                    latest_model[fn] = pth
                elif fn.endswith(".puml"):
                    latest_puml[fn] = pth
                if before.get(fn) != core.digest(open(pth).read()):
                    written.add(fn)
            loaded_without_data += sum(
                1 for m in models
                if os.path.basename(m).replace("_model.json", ".puml")
                not in written and not unit["same_out"])
        rec["step_status"] = steps
        rec["processes"] = procs
        rec["sim_ns"] = sim_ns
        rec["fs_permuted"] = fs_perm
        rec["models_loaded_without_new_data"] = loaded_without_data
        for name, stt in [("ref", ref["status"])] + [
                (f"step{j}", s) for j, s in enumerate(steps)]:
            if stt.startswith("harness"):
                rec["errs"].append(["harness", f"{name}: {stt}"])
        if any(e[0] == "harness" for e in rec["errs"]):
            rec["status"] = "ok"
            return rec
        if ref["status"] != "ok":
            # the one-shot run itself fails: nothing to compare with
            rec["status"] = "ok"
            rec["undecided"] = 1
            return rec
        if any(s != "ok" for s in steps):
            rec["errs"].append(["chunk-run-fails",
                                f"one-shot ok, steps {steps}"])
            rec["status"] = "ok"
            return rec
        ref_pumls = {fn: open(os.path.join(out_ref, fn)).read()
                     for fn in sorted(os.listdir(out_ref))
                     if fn.endswith(".puml")}
        ref_models = {fn: os.path.join(out_ref, fn)
                      for fn in sorted(os.listdir(out_ref))
                      if fn.endswith("_model.json")}
        rec["pumls"] = sorted(ref_pumls)
        if sorted(latest_puml) != sorted(ref_pumls):
            rec["errs"].append(["workflow-set", f"one-shot {sorted(ref_pumls)}"
                                f" chunked {sorted(latest_puml)}"])
        if sorted(latest_model) != sorted(ref_models):
            rec["errs"].append(["model-set", f"one-shot {sorted(ref_models)}"
                                f" chunked {sorted(latest_model)}"])
        rec["gates"] = 0
        cmp: dict = {}
        for fn in sorted(set(ref_pumls) & set(latest_puml)):
            a_ = analyse_puml(ref_pumls[fn])
            b_ = analyse_puml(open(latest_puml[fn]).read())
            rec["gates"] += a_.get("gates", 0)
            cmp[fn] = [a_, b_]
            if a_.get("parse") != "ok" or b_.get("parse") != "ok":
                if a_.get("parse") != b_.get("parse"):
                    rec["errs"].append(["diagram-differs", f"{fn}: one-shot "
                                        f"{a_.get('parse')} chunked "
                                        f"{b_.get('parse')}"])
                continue
            if a_["names"] != b_["names"]:
                rec["errs"].append(["diagram-names-differ",
                                    f"{fn}: one-shot {a_['names']} chunked "
                                    f"{b_['names']}"])
            elif a_["lang"] is None or b_["lang"] is None:
                rec["undecided"] = rec.get("undecided", 0) + 1
            elif a_["lang"] != b_["lang"]:
                rec["errs"].append(["diagram-language-differs", fn])
        for fn in sorted(set(ref_models) & set(latest_model)):
            ma = wle.model_canon_from_file(ref_models[fn])
            mb = wle.model_canon_from_file(latest_model[fn])
            if ma != mb:
                diff = [et for et in sorted(set(ma["events"])
                                            | set(mb["events"]))
                        if ma["events"].get(et) != mb["events"].get(et)]
                rec["errs"].append(["model-differs",
                                    f"{fn}: job name {ma['job_name']!r} / "
                                    f"{mb['job_name']!r}, event types that "
                                    f"differ {diff[:6]}"])
        rec["log_digest"] = core.digest(
            {"steps": steps, "cmp": cmp,
             "models": {fn: wle.model_canon_from_file(p)
                        for fn, p in sorted(latest_model.items())}})
        rec["status"] = "ok"
        return rec
    finally:
        shutil.rmtree(tmp, ignore_errors=True)


def _fl(x):
    return (("i" if x["ingest"] else "n") + ("u" if x["ug"] else "-")
            + ("s" if x["se"] else "-"))


CHILD = {"c14": _child_c14, "c15": _child_c15, "c04o": _child_c04o}


def run_unit(unit: dict) -> dict:
    try:
        st, val = core.run_forked(CHILD[unit["kind"]], unit,
                                  wall_limit=unit.get("wall", 2400))
    except core.ChildTimeout:
        return {"status": "harness-timeout"}
    if st == "ok":
        return val
    return {"status": "harness-child-" + st, "detail": val}
