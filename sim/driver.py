"""Common check driver: tiers, seeds, known findings, VIOLATION lines, evidence,
exit codes (DESIGN.md 2.8 / 2.9)."""
from __future__ import annotations

import argparse
import os
import sys
import time

from . import core


class CheckRun:
    def __init__(self, prop: str, argv=None):
        ap = argparse.ArgumentParser(prog=f"check {prop}")
        ap.add_argument("--tier", default=os.environ.get("VERIF_TIER", "quick"),
                        choices=["quick", "thorough"])
        ap.add_argument("--seed", type=int,
                        default=int(os.environ.get("VERIF_SEED", "0")))
        ap.add_argument("--replay", default=None)
        ap.add_argument("--nproc", type=int, default=None)
        ap.add_argument("--scale", type=float,
                        default=float(os.environ.get("VERIF_SCALE", "1")))
        a = ap.parse_args(argv)
        self.prop = prop
        self.tier = a.tier
        self.seed = a.seed
        self.replay = a.replay
        self.nproc = a.nproc
        self.scale = a.scale
        self.t0 = time.time()
        self.findings = core.load_known_findings()
        self.known_seen: dict[str, dict] = {}
        self.known_hits: dict[str, int] = {}
        self.violations: list[dict] = []
        self.harness_errors: list[str] = []
        print(f"# check {prop} tier={self.tier} VERIF_SEED={self.seed}",
              flush=True)

    # ------------------------------------------------------------------
    def violation(self, key: dict, what: str, payload: dict | None = None):
        """Record a violation.  Returns 'known' or 'new'."""
        kf = core.match_known(self.prop, key, self.findings)
        if kf is not None:
            ident = core.digest([kf.get("key"), kf.get("what")])
            self.known_seen.setdefault(ident, kf)
            self.known_hits[ident] = self.known_hits.get(ident, 0) + 1
            return "known"
        self.violations.append(
            {"key": key, "what": what, "payload": payload or {}}
        )
        return "new"

    def harness_error(self, msg: str):
        self.harness_errors.append(msg)

    # ------------------------------------------------------------------
    def finish(self, coverage: dict, assumptions: list[str],
               level: str = "exploration"):
        wall = time.time() - self.t0
        for ident, kf in self.known_seen.items():
            print(f"KNOWN-FINDING: property={self.prop} {kf['what']} "
                  f"[{self.known_hits[ident]} listed input(s) reproduced]")
        reported = 0
        seen_keys = set()
        for v in self.violations:
            ident = core.digest(v["key"])
            if ident in seen_keys:
                continue
            seen_keys.add(ident)
            path = v["payload"].get("replay_path")
            if path is None:
                path = core.write_replay(
                    self.prop, self.seed, ident,
                    {"key": v["key"], "what": v["what"], **v["payload"]},
                )
            print(f"VIOLATION property={self.prop} replay={path}")
            print(f"#   {v['what']}")
            reported += 1
        coverage = dict(coverage)
        coverage.setdefault("real_components", core.REAL_COMPONENTS)
        coverage.setdefault("stub_components", core.STUB_COMPONENTS)
        coverage["known_findings_seen"] = [
            kf["what"] for kf in self.known_seen.values()
        ]
        coverage["harness_errors"] = self.harness_errors[:10]
        ev = coverage.get("evaluations", 0)
        if wall > 0:
            coverage["runs_per_hour"] = int(ev / wall * 3600)
        try:
            core.write_evidence(self.prop, self.tier, self.seed, coverage,
                                wall, reported, assumptions, level)
        except Exception as e:  # pragma: no cover
            print(f"HARNESS-ERROR could not write evidence: {e}")
            sys.exit(core.EXIT_HARNESS)
        print(f"# {self.prop}: evaluations={ev} violations={reported} "
              f"known={len(self.known_seen)} wall={wall:.1f}s", flush=True)
        if reported:
            sys.exit(core.EXIT_VIOLATION)
        if self.harness_errors:
            for h in self.harness_errors[:10]:
                print(f"HARNESS-ERROR {h}")
            sys.exit(core.EXIT_HARNESS)
        sys.exit(core.EXIT_OK)


def scaled(n: int, scale: float) -> int:
    return max(1, int(n * scale))
