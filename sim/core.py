"""Simulator core: seed derivation, hash-class workers, forked simulated
processes, replay files, evidence, known findings, exit-code discipline.
DESIGN.md section 2."""
from __future__ import annotations

import hashlib
import json
import os
import queue
import select
import signal
import subprocess
import sys
import threading
import time
import traceback

VERIF = os.path.dirname(os.path.dirname(os.path.abspath(__file__)))
REPO = os.environ.get("VERIF_REPO", "/repo")
PYTHON = os.environ.get("VERIF_PYTHON", "/venv/bin/python")
STUB = os.path.join(VERIF, "sim", "janus_stub")

EXIT_OK, EXIT_VIOLATION, EXIT_HARNESS = 0, 1, 2


# ---------------------------------------------------------------------------
# one integer decides everything
# ---------------------------------------------------------------------------
def master(seed: int) -> bytes:
    return hashlib.sha256(f"otel2puml-verif|{seed}".encode()).digest()


def derive(m: bytes | int | str, *names) -> int:
    """Derive a 64-bit integer from a master key and a path of names."""
    if isinstance(m, int):
        m = master(m)
    if isinstance(m, str):
        m = m.encode()
    h = hashlib.sha256(m)
    for n in names:
        h.update(b"|")
        h.update(str(n).encode())
    return int.from_bytes(h.digest()[:8], "big")


GRID_SALT = "otel2puml-verif-grid-v1"


def grid(*names) -> int:
    """Seeds of the fixed, pre-soaked schedule grid (independent of
    VERIF_SEED; see DESIGN.md 2.9)."""
    return derive(GRID_SALT, *names)


def hash_seed_of_class(k: int) -> int:
    """PYTHONHASHSEED of hash class k (fixed grid, not VERIF_SEED dependent,
    so that the pre-soak covers exactly the interpreters a check will use)."""
    return grid("hashclass", k) % 4294967295 + 1


def digest(obj) -> str:
    return hashlib.sha256(
        json.dumps(obj, sort_keys=True, separators=(",", ":")).encode()
    ).hexdigest()[:16]


# ---------------------------------------------------------------------------
# forked simulated process
# ---------------------------------------------------------------------------
class ChildTimeout(Exception):
    pass


def run_forked(fn, arg, wall_limit: float = 120.0):
    """Run fn(arg) in a forked child (a *simulated process*): real process
    boundary, nothing but files survives.  The child reports a JSON value
    through a pipe.  Returns (status, value): status is 'ok', 'exit:<n>' (the
    child called exit/_exit itself), 'signal:<n>' or raises ChildTimeout."""
    r, w = os.pipe()
    sys.stdout.flush()
    sys.stderr.flush()
    pid = os.fork()
    if pid == 0:
        code = 0
        try:
            os.close(r)
            try:
                val = fn(arg)
                payload = json.dumps({"ok": True, "val": val})
            except SystemExit as e:  # code under test called exit()
                c = e.code if isinstance(e.code, int) else 1
                payload = json.dumps({"ok": False, "exit": c})
                code = 0
            except BaseException as e:  # harness or code-under-test escape
                payload = json.dumps(
                    {
                        "ok": False,
                        "exc": type(e).__name__,
                        "msg": str(e)[:500],
                        "tb": traceback.format_exc()[-3000:],
                    }
                )
            data = payload.encode()
            off = 0
            while off < len(data):
                off += os.write(w, data[off:off + 65536])
            os.close(w)
        finally:
            os._exit(code)
    os.close(w)
    chunks = []
    deadline = time.monotonic() + wall_limit
    timed_out = False
    while True:
        left = deadline - time.monotonic()
        if left <= 0:
            timed_out = True
            break
        rl, _, _ = select.select([r], [], [], min(left, 1.0))
        if rl:
            b = os.read(r, 1 << 16)
            if not b:
                break
            chunks.append(b)
    os.close(r)
    if timed_out:
        try:
            os.kill(pid, signal.SIGKILL)
        except ProcessLookupError:
            pass
        os.waitpid(pid, 0)
        raise ChildTimeout()
    _, st = os.waitpid(pid, 0)
    data = b"".join(chunks)
    if os.WIFSIGNALED(st):
        return f"signal:{os.WTERMSIG(st)}", None
    if not data:
        return f"exit:{os.WEXITSTATUS(st)}", None
    rep = json.loads(data)
    if rep.get("ok"):
        return "ok", rep["val"]
    if "exit" in rep:
        return f"exit:{rep['exit']}", None
    return "exc", rep


def silence_child_output():
    """Redirect fd 1/2 of a forked child to /dev/null (tqdm.write, prints of
    the CLI)."""
    dn = os.open(os.devnull, os.O_WRONLY)
    os.dup2(dn, 1)
    os.dup2(dn, 2)


# ---------------------------------------------------------------------------
# worker pool: fresh interpreters, one PYTHONHASHSEED per hash class
# ---------------------------------------------------------------------------
class HarnessError(Exception):
    pass


def worker_env(hash_seed: int) -> dict:
    env = dict(os.environ)
    env["PYTHONHASHSEED"] = str(hash_seed)
    env["TQDM_DISABLE"] = "1"
    env["PYTHONDONTWRITEBYTECODE"] = "1"
    env["PYTHONPATH"] = os.pathsep.join([VERIF, STUB, REPO])
    env["OMP_NUM_THREADS"] = "1"
    env["OPENBLAS_NUM_THREADS"] = "1"
    env["MKL_NUM_THREADS"] = "1"
    return env


class Worker:
    def __init__(self, world: str, hash_seed: int):
        self.hash_seed = hash_seed
        self.proc = subprocess.Popen(
            [PYTHON, "-u", os.path.join(VERIF, "sim", "worker_main.py"),
             world],
            stdin=subprocess.PIPE, stdout=subprocess.PIPE,
            stderr=subprocess.PIPE, env=worker_env(hash_seed), cwd=VERIF,
            text=True,
        )
        self._err = []
        self._t = threading.Thread(target=self._drain, daemon=True)
        self._t.start()
        line = self.proc.stdout.readline()
        if not line.startswith("READY"):
            raise HarnessError(
                "worker failed to start: " + line + "".join(self._err)[-2000:]
            )

    def _drain(self):
        for ln in self.proc.stderr:
            self._err.append(ln)
            if len(self._err) > 200:
                del self._err[:100]

    def run(self, unit: dict) -> dict:
        self.proc.stdin.write(json.dumps(unit) + "\n")
        self.proc.stdin.flush()
        line = self.proc.stdout.readline()
        if not line:
            raise HarnessError(
                "worker died: " + "".join(self._err)[-2000:]
            )
        return json.loads(line)

    def close(self):
        try:
            self.proc.stdin.close()
        except Exception:
            pass
        try:
            self.proc.wait(timeout=10)
        except Exception:
            self.proc.kill()


class Pool:
    """Persistent pool of workers keyed by hash class.  The result of a unit
    depends only on the unit itself (each is executed in a forked child of a
    worker that never runs code under test itself), so outputs are identical
    for any worker count."""

    def __init__(self, world: str, nproc: int | None = None):
        self.world = world
        if nproc is None:
            nproc = int(os.environ.get("VERIF_NPROC", os.cpu_count() or 4))
        self.nproc = max(1, nproc)
        self.workers: dict[int, list[Worker]] = {}
        self.lock = threading.Lock()

    def _ensure(self, alloc: dict[int, int]):
        need = []
        for k, n in alloc.items():
            have = len(self.workers.setdefault(k, []))
            need += [k] * max(0, n - have)
        if not need:
            return
        # make room: close idle workers of classes not needed now
        total = sum(len(v) for v in self.workers.values())
        if total + len(need) > self.nproc + len(alloc):
            for k in list(self.workers):
                if k not in alloc:
                    for w in self.workers.pop(k):
                        w.close()
        errs = []

        def spawn(k):
            try:
                w = Worker(self.world, hash_seed_of_class(k))
                with self.lock:
                    self.workers[k].append(w)
            except Exception as e:  # pragma: no cover
                errs.append(e)

        ts = [threading.Thread(target=spawn, args=(k,)) for k in need]
        for t in ts:
            t.start()
        for t in ts:
            t.join()
        if errs:
            raise HarnessError(str(errs[0]))

    def map(self, units: list[dict], progress=None) -> list[dict]:
        if not units:
            return []
        classes = sorted({u["hash_class"] for u in units})
        per_class = {
            k: [i for i, u in enumerate(units) if u["hash_class"] == k]
            for k in classes
        }
        total = len(units)
        alloc = {
            k: min(len(per_class[k]),
                   max(1, round(self.nproc * len(per_class[k]) / total)))
            for k in classes
        }
        while sum(alloc.values()) > max(self.nproc, len(classes)):
            kmax = max(alloc, key=lambda k: alloc[k])
            if alloc[kmax] == 1:
                break
            alloc[kmax] -= 1
        self._ensure(alloc)
        results: list = [None] * len(units)
        errors: list = []
        queues = {k: queue.Queue() for k in classes}
        for k in classes:
            for i in per_class[k]:
                queues[k].put(i)
        done = [0]

        def serve(k, wk):
            try:
                while not errors:
                    try:
                        i = queues[k].get_nowait()
                    except queue.Empty:
                        break
                    results[i] = wk.run(units[i])
                    with self.lock:
                        done[0] += 1
                        if progress:
                            progress(done[0], len(units))
            except Exception as e:
                errors.append(e)

        threads = []
        for k in classes:
            for wk in self.workers[k][: alloc[k]]:
                t = threading.Thread(target=serve, args=(k, wk), daemon=True)
                t.start()
                threads.append(t)
        for t in threads:
            t.join()
        if errors:
            raise HarnessError(str(errors[0]))
        if any(r is None for r in results):
            raise HarnessError("some units were not executed")
        return results

    def close(self):
        for ws in self.workers.values():
            for w in ws:
                w.close()
        self.workers = {}

    def __enter__(self):
        return self

    def __exit__(self, *a):
        self.close()


def run_units(world: str, units: list[dict], nproc: int | None = None,
              progress=None) -> list[dict]:
    with Pool(world, nproc) as p:
        return p.map(units, progress)


# ---------------------------------------------------------------------------
# known findings
# ---------------------------------------------------------------------------
def load_known_findings() -> list[dict]:
    p = os.path.join(VERIF, "known_findings.json")
    if not os.path.exists(p):
        return []
    return json.load(open(p))["findings"]


def match_known(prop: str, key: dict, findings=None) -> dict | None:
    """A violation is known iff a 'known' entry of the same property has a
    key all of whose fields equal the violation's key fields."""
    if findings is None:
        findings = load_known_findings()
    for f in findings:
        if f.get("status") != "known" or f["property"] != prop:
            continue
        if not all(key.get(k) == v for k, v in f.get("key", {}).items()):
            continue
        inputs = f.get("inputs")
        if inputs is not None:
            # the finding lists the specific inputs (workload id, schedule
            # id or "*") on which it fails; nothing else is covered by it
            w, s = key.get("workload"), key.get("schedule")
            if not any(i[0] == w and (i[1] == "*" or i[1] == s)
                       for i in inputs):
                continue
        return f
    return None


# ---------------------------------------------------------------------------
# replay files and evidence
# ---------------------------------------------------------------------------
def write_replay(prop: str, seed: int, unit_id: str, payload: dict) -> str:
    d = os.environ.get("VERIF_REPLAY_DIR") or os.path.join(VERIF, "replays")
    os.makedirs(d, exist_ok=True)
    safe = "".join(c if c.isalnum() or c in "-_." else "_" for c in unit_id)
    path = os.path.join(d, f"{prop}-{seed}-{safe[:80]}.json")
    payload = dict(payload)
    payload["property"] = prop
    payload["verif_seed"] = seed
    with open(path, "w") as f:
        json.dump(payload, f, indent=1, sort_keys=True)
    return path


def write_evidence(prop: str, tier: str, seed: int, coverage: dict,
                   wall_s: float, violations: int, assumptions: list[str],
                   level: str = "exploration"):
    d = os.environ.get("VERIF_EVIDENCE_DIR") or os.path.join(VERIF,
                                                             "evidence")
    os.makedirs(d, exist_ok=True)
    ev = {
        "property_id": prop,
        "tier": tier,
        "seed": seed,
        "level": level,
        "coverage": coverage,
        "assumptions": assumptions,
        "wall_s": round(wall_s, 2),
        "violations": violations,
    }
    tmp = os.path.join(d, f".{prop}.json.tmp")
    with open(tmp, "w") as f:
        json.dump(ev, f, indent=1, sort_keys=True)
    os.replace(tmp, os.path.join(d, f"{prop}.json"))


REAL_COMPONENTS = [
    "tel2puml (all modules, from /repo working tree)", "pm4py", "networkx",
    "pandas", "SQLAlchemy+sqlite3", "jq", "pydantic", "xxhash",
]
STUB_COMPONENTS = [
    "test_event_generator (janus) EventSolution/GraphSolution containers "
    "(sim/janus_stub; the real package is absent from the image)",
    "span producer / transport / process supervisor (the simulator)",
]
