"""Worker: a fresh interpreter with a fixed PYTHONHASHSEED.  Imports the code
under test once, then executes each unit in a forked child (the simulated
process); the worker itself never runs code under test, so every child starts
from the same image."""
import importlib
import json
import os
import sys


def main():
    world = sys.argv[1]
    os.environ.setdefault("TQDM_DISABLE", "1")
    import warnings

    warnings.filterwarnings("ignore")
    mod = importlib.import_module("sim." + world)
    mod.preload()
    sys.stdout.write("READY %s\n" % os.environ.get("PYTHONHASHSEED"))
    sys.stdout.flush()
    for line in sys.stdin:
        line = line.strip()
        if not line:
            continue
        unit = json.loads(line)
        try:
            res = mod.run_unit(unit)
        except Exception as e:  # harness-level failure, never a verdict
            import traceback

            res = {"harness_error": type(e).__name__ + ": " + str(e)[:300],
                   "tb": traceback.format_exc()[-2000:]}
        sys.stdout.write(json.dumps(res) + "\n")
        sys.stdout.flush()


if __name__ == "__main__":
    main()
