"""Build-time soak of the C14 data-set grid and of the C15 data sets (one long
history each).  usage: python -m sim.soak_cli C14|C15 out.jsonl [nproc] [lo hi]"""
import json
import random
import sys
import time

from . import core, checks_cli as cc


def main():
    prop, out = sys.argv[1], sys.argv[2]
    nproc = int(sys.argv[3]) if len(sys.argv) > 3 else None
    lo = int(sys.argv[4]) if len(sys.argv) > 4 else 0
    hi = int(sys.argv[5]) if len(sys.argv) > 5 else cc.N_DS[prop]
    units = []
    for i in range(lo, hi):
        if prop == "C14":
            units.append(cc.c14_unit(i))
        else:
            hr = random.Random(core.grid("c15-soak-history", i))
            h = [hr.choice([f for f in cc.FLAGS if f["ingest"]])] + [
                hr.choice(cc.FLAGS) for _ in range(3)]
            units.append({"kind": "c15", "idx": i, "hash_class": i % 16,
                          "uuid_seed": core.grid("c15-uuid", i) % 2**32,
                          "history": h})
    t0 = time.time()

    def prog(d, n):
        if d % 200 == 0:
            print(f"  {d}/{n} {time.time()-t0:.0f}s", flush=True)

    res = core.run_units("world_cli", units, nproc=nproc, progress=prog)
    stats = {}
    with open(out, "w") as f:
        for u, r in zip(units, res):
            cls = cc.classes(r) if r.get("status") == "ok" else [
                "HARNESS:" + str(r.get("status"))]
            if any(e[0] == "harness" for e in r.get("errs", [])):
                cls.append("HARNESS:inner")
            k = "|".join(sorted(set(cls))) or "ok"
            stats[k] = stats.get(k, 0) + 1
            f.write(json.dumps({"idx": u["idx"], "cls": cls,
                                "errs": r.get("errs"),
                                "undecided": r.get("undecided")}) + "\n")
            if cls:
                print(u["idx"], cls, str(r.get("errs"))[:300], flush=True)
    print(json.dumps(stats, indent=1))


if __name__ == "__main__":
    main()
