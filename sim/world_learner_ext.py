"""World L, multi-process histories: C04 (model save / reload across learner
restarts) and C06 (gate inference component run inside the simulator)."""
from __future__ import annotations

import json
import os
import shutil
import tempfile

from . import core, puml_sem, seams as seams_mod, gen_defs
from . import world_learner as wl

SHM = "/dev/shm" if os.path.isdir("/dev/shm") else None


def model_canon_from_file(path: str) -> dict:
    raw = json.load(open(path))
    out = {}
    for ev in raw["events"]:
        def sets(lst):
            return sorted(
                sorted([e["eventType"], e["count"]] for e in s) for s in lst
            )
        out[ev["eventType"]] = {
            "out": sets(ev["outgoingEventSets"]),
            "in": sets(ev["incomingEventSets"]),
        }
    return {"job_name": raw["job_name"], "events": out}


def model_canon_from_events(job_name, events) -> dict:
    out = {}
    for et, ev in events.items():
        out[et] = {
            "out": sorted(sorted([k, v] for k, v in s.items())
                          for s in ev.event_sets),
            "in": sorted(sorted([k, v] for k, v in s.items())
                         for s in ev.in_event_sets),
        }
    return {"job_name": job_name, "events": out}


# ---------------------------------------------------------------------------
# one learner process of a C04 history (grand-child)
# ---------------------------------------------------------------------------
def _cli_step(arg: dict) -> dict:
    core.silence_child_output()
    sm = seams_mod.Seams(
        uuid_seed=arg["uuid_seed"],
        clock_origin_s=arg.get("clock_origin_s", 1704067200),
        clock_tick_us=arg.get("clock_tick_us", 1000),
        fs_seed=arg.get("fs_seed", 0),
        step_budget=wl.STEP_BUDGET,
    )
    seams_mod.install(sm)
    import tel2puml.pv_to_puml.pv_to_puml as p2p
    import tel2puml.otel_to_puml as o2p
    from tel2puml.__main__ import main_handler, ERROR_MESSAGES

    probes = {"loaded_events": 0, "cached_after_reload": 0}
    snap_path = arg.get("snapshot_path")
    real_save = p2p.save_events_to_file

    def save_spy(job_name, events, file_path):
        if snap_path:
            with open(snap_path, "w") as f:
                json.dump(model_canon_from_events(job_name, events), f)
        return real_save(job_name, events, file_path)

    p2p.save_events_to_file = save_spy
    real_load = o2p.load_events_from_file

    def load_spy(path):
        name, events = real_load(path)
        probes["loaded_events"] += len(events)
        return name, events

    o2p.load_events_from_file = load_spy
    try:
        main_handler(dict(arg["args"]), ERROR_MESSAGES)
        status = "ok"
    except seams_mod.StepBudgetExceeded:
        status = "no-termination"
    return {"status": status, "steps": sm.steps, "uuid_calls": sm.uuid_calls,
            "sim_ns": sm.simulated_ns, "fs_permuted": sm.fs_permuted,
            "probes": probes}


def run_cli_step(arg: dict, wall=400) -> dict:
    try:
        st, val = core.run_forked(_cli_step, arg, wall_limit=wall)
    except core.ChildTimeout:
        return {"status": "harness-timeout"}
    if st == "ok":
        return val
    if st.startswith("exit:"):
        return {"status": st}
    if st == "exc":
        return {"status": "harness-exc", "detail": val}
    return {"status": "harness-" + st}


def _analyse(text: str, kin=2):
    try:
        _, ast = puml_sem.parse(text)
    except puml_sem.ParseError:
        return {"parse": "unparseable"}
    names = sorted(set(puml_sem.event_name_list(ast)))
    try:
        lang = puml_sem.language(ast, kmax=kin, cap=wl.LANG_CAP)
    except puml_sem.Unsupported:
        # e.g. `break` outside any loop (C05's business): no language
        lang = None
    return {"parse": "ok", "names": names,
            "lang": None if lang is None else puml_sem.lang_digest(lang),
            "n_lang": None if lang is None else len(lang)}


def _child_c04(unit: dict) -> dict:
    """One C04 history: learner processes separated by restarts; only files
    survive between steps."""
    core.silence_child_output()
    ast = unit.get("ast") or gen_defs.load_workload(unit["wid"])
    rec: dict = {"wid": unit.get("wid"), "sched": unit.get("sched")}
    try:
        src2 = []
        for j in puml_sem.executions(ast, kmax=2, cap=wl.JOB_CAP * 50):
            src2.append(j)
            if len(src2) > unit.get("job_cap", 60):
                rec["status"] = "toobig"
                return rec
    except (puml_sem.TooMany, puml_sem.Unsupported):
        rec["status"] = "toobig"
        return rec
    present = dict(unit["present"])
    if present.get("order") is None:
        if present.get("derive"):
            from . import grid

            present["order"] = grid.derive_order(
                len(src2), len(src2), present["derive"])
        else:
            present["order"] = list(range(len(src2)))
    present.pop("derive", None)
    pv = wl.build_delivery(src2, present)
    n = len(pv)
    if n < 2:
        rec["status"] = "trivial"
        return rec
    # chunks: explicit list of cut positions into the delivered order
    cuts = unit.get("cuts")
    if cuts is None:
        import random

        r = random.Random(unit["cut_seed"])
        k = r.choice([1, 1, 2]) if n >= 3 else 1
        cuts = sorted(r.sample(range(1, n), k))
    if unit.get("bias"):
        # deliver the jobs with the most event types first so that later
        # chunks bring no new evidence for some events
        pv.sort(key=lambda job: -len({e["eventType"] for e in job}))
    bounds = [0] + list(cuts) + [n]
    chunks = [pv[bounds[i]:bounds[i + 1]] for i in range(len(bounds) - 1)]
    rec["present"] = present
    rec["cuts"] = list(cuts)
    rec["n_jobs"] = n
    rec["features"] = {
        "and": puml_sem.count_kind(ast, ("and",)),
        "or": puml_sem.count_kind(ast, ("or",)),
        "xor": puml_sem.count_kind(ast, ("xor",)),
        "loop": puml_sem.count_kind(ast, ("loop",)),
    }
    types_per_chunk = [sorted({e["eventType"] for job in c for e in job})
                       for c in chunks]
    seen = set()
    absent_later = 0
    for i, t in enumerate(types_per_chunk):
        if i:
            absent_later += len(seen - set(t)) > 0
        seen |= set(t)
    rec["absent_in_later_chunk"] = absent_later
    tmp = tempfile.mkdtemp(prefix="verif-c04-", dir=SHM)
    try:
        def write_jobs(d, jobs):
            os.makedirs(d)
            paths = []
            for i, job in enumerate(jobs):
                p = os.path.join(d, f"job_{i:04d}.json")
                with open(p, "w") as f:
                    json.dump(job, f)
                paths.append(p)
            return paths

        def args_for(paths, folder, out, models):
            a = {"command": "pv2puml", "job_name": job_name,
                 "group_by_job": False, "mapping_config_file": None,
                 "input_puml_models": models, "output_puml_models": True,
                 "output_file_directory": out, "debug": False}
            if folder:
                a["folder_path"] = folder
                a["file_paths"] = []
            else:
                a["folder_path"] = None
                a["file_paths"] = paths
            return a

        job_name = unit.get("job_name", "x")
        file_name = job_name.replace(" ", "_")
        use_folder = bool(unit.get("use_folder"))
        base = dict(clock_origin_s=unit.get("clock_origin_s", 1704067200),
                    clock_tick_us=unit.get("clock_tick_us", 1000))
        # reference: one learner process sees everything
        d_all = os.path.join(tmp, "all")
        paths = write_jobs(d_all, pv)
        out_all = os.path.join(tmp, "out_all")
        ref = run_cli_step(dict(
            base, uuid_seed=unit["uuid_seed"], fs_seed=unit["uuid_seed"] + 1,
            snapshot_path=os.path.join(tmp, "snap_all.json"),
            args=args_for(paths, d_all if use_folder else None, out_all, [])))
        rec["ref_status"] = ref["status"]
        steps = [ref]
        # history: chunk by chunk, restart in between
        model = None
        step_status = []
        roundtrip_ok = True
        roundtrip_detail = None
        out_j = None
        probes = {"loaded_events": 0}
        for j, chunk in enumerate(chunks):
            d_j = os.path.join(tmp, f"chunk{j}")
            paths = write_jobs(d_j, chunk)
            # the usual way of working is to keep one output directory and
            # overwrite <job>.puml / <job>_model.json in place
            out_j = os.path.join(tmp, "out_chunks" if unit.get("same_out")
                                 else f"out{j}")
            snap = os.path.join(tmp, f"snap{j}.json")
            st = run_cli_step(dict(
                base, uuid_seed=unit["uuid_seed"] + 100 + j,
                fs_seed=unit["uuid_seed"] + 200 + j, snapshot_path=snap,
                args=args_for(paths, d_j if use_folder else None, out_j,
                              [model] if model else [])))
            steps.append(st)
            step_status.append(st["status"])
            if st["status"] != "ok":
                break
            probes["loaded_events"] += st["probes"]["loaded_events"]
            model = os.path.join(out_j, file_name + "_model.json")
            # oracle (2): the file round-trips the in-memory model
            if os.path.exists(snap) and os.path.exists(model):
                a = json.load(open(snap))
                b = model_canon_from_file(model)
                if a != b:
                    roundtrip_ok = False
                    roundtrip_detail = {"step": j, "memory": a, "file": b}
            else:
                roundtrip_ok = False
                roundtrip_detail = {"step": j, "missing": True}
        rec["step_status"] = step_status
        rec["probes"] = probes
        rec["sim_ns"] = sum(s.get("sim_ns", 0) for s in steps)
        rec["fs_permuted"] = sum(s.get("fs_permuted", 0) for s in steps)
        rec["roundtrip_ok"] = roundtrip_ok
        if roundtrip_detail:
            rec["roundtrip_detail"] = json.dumps(roundtrip_detail)[:1500]
        if ref["status"] == "ok":
            t = open(os.path.join(out_all, file_name + ".puml")).read()
            rec["ref_text"] = t
            rec["ref"] = _analyse(t)
            rec["ref_model"] = model_canon_from_file(
                os.path.join(out_all, file_name + "_model.json"))
        if step_status and all(s == "ok" for s in step_status):
            t = open(os.path.join(out_j, file_name + ".puml")).read()
            rec["fin_text"] = t
            rec["fin"] = _analyse(t)
            rec["fin_model"] = model_canon_from_file(
                os.path.join(out_j, file_name + "_model.json"))
        rec["status"] = "ok"
        return rec
    finally:
        shutil.rmtree(tmp, ignore_errors=True)


CHILD_FUNCS = {"c04": _child_c04}
