"""Reference semantics of gate trees (DESIGN.md 3.2) and the exhaustive
enumerator of the C06 workload universe."""
from __future__ import annotations

import itertools


def fam(t) -> set[frozenset]:
    """Outcome family of a reference tree ["ev", x] | [op, [children]]."""
    if t[0] == "ev":
        return {frozenset([t[1]])}
    fs = [fam(c) for c in t[1]]
    if t[0] == "XOR":
        return set().union(*fs)
    if t[0] == "AND":
        idxsets = [tuple(range(len(fs)))]
    else:
        idxsets = [s for r in range(1, len(fs) + 1)
                   for s in itertools.combinations(range(len(fs)), r)]
    out = set()
    for idx in idxsets:
        for combo in itertools.product(*[fs[i] for i in idx]):
            out.add(frozenset().union(*combo))
    return out


class Uninterpretable(Exception):
    pass


def pfam(pt) -> set[frozenset]:
    """The same interpretation applied to a pm4py ProcessTree returned by
    calculate_logic_gates (+, X, O, defunct ->, tau)."""
    if pt.operator is None:
        return ({frozenset([pt.label])} if pt.label is not None
                else {frozenset()})
    v = pt.operator.value
    kids = [pfam(c) for c in pt.children]
    if not kids:
        raise Uninterpretable(f"operator {v} without children")
    if v == "X":
        return set().union(*kids)
    if v in ("+", "->"):
        idxsets = [tuple(range(len(kids)))]
    elif v == "O":
        idxsets = [s for r in range(1, len(kids) + 1)
                   for s in itertools.combinations(range(len(kids)), r)]
    else:
        raise Uninterpretable(f"operator {v}")
    out = set()
    for idx in idxsets:
        for combo in itertools.product(*[kids[i] for i in idx]):
            out.add(frozenset().union(*combo))
    return out


def show_pt(pt) -> str:
    if pt.operator is None:
        return str(pt.label) if pt.label is not None else "tau"
    return pt.operator.value + "(" + ",".join(
        show_pt(c) for c in pt.children) + ")"


def partitions(s):
    if len(s) == 1:
        yield [s]
        return
    first = s[0]
    for p in partitions(s[1:]):
        for i in range(len(p)):
            yield p[:i] + [[first] + p[i]] + p[i + 1:]
        yield [[first]] + p


def trees(names, depth, parent_op=None):
    """All trees over exactly `names` with alternating operators, depth <=
    `depth`."""
    if len(names) == 1:
        yield ["ev", names[0]]
        return
    if depth == 0:
        return
    for op in ("AND", "OR", "XOR"):
        if op == parent_op:
            continue
        for part in partitions(names):
            if len(part) < 2:
                continue
            for kids in itertools.product(
                    *[list(trees(p, depth - 1, op)) for p in part]):
                yield [op, list(kids)]


def all_trees(n: int, depth: int = 3):
    names = [chr(65 + i) for i in range(n)]
    return list(trees(names, depth))


def in_exact_class(t) -> bool:
    """OR gates join only plain events and no AND gate has two OR children."""
    if t[0] == "ev":
        return True
    if t[0] == "OR" and any(c[0] != "ev" for c in t[1]):
        return False
    if t[0] == "AND" and sum(1 for c in t[1] if c[0] == "OR") >= 2:
        return False
    return all(in_exact_class(c) for c in t[1])


def show(t) -> str:
    if t[0] == "ev":
        return t[1]
    return t[0] + "(" + ",".join(show(c) for c in t[1]) + ")"
