"""Checks of world S: C09 (unique graphs), C10 (ingestion), C11 (cleaning),
C12 (streaming).  DESIGN.md section 4."""
from __future__ import annotations

import copy
import json
import random

from . import core, world_store as ws
from .driver import CheckRun, scaled

WORLD = "world_store"
N_SCEN = 8000  # fixed scenario grid per property: indices 0..N_SCEN-1
SIZES = {"quick": 2500, "thorough": 8000}   # thorough = the whole grid
# large-scale family (world_store.LARGE_BASE + 0..N_LARGE-1): a thousand and
# more spans per scenario, batch sizes around the default 1000
N_LARGE = 400
# combined-fault family (world_store.MIXED_BASE + 0..N_MIXED-1), C09/C11/C12
N_MIXED = 1600          # 1000.. also have clock skew / foreign-trace dups
SIZES_MIXED = {"quick": {"C09": 80, "C10": 300, "C11": 300, "C12": 80},
               "thorough": {"C09": N_MIXED, "C10": N_MIXED, "C11": N_MIXED,
                            "C12": N_MIXED}}
MIXED_FROM = {"C09": 0, "C10": 1000, "C11": 0, "C12": 0}
# late-window family (world_store.LATE_BASE + 0..N_LATE-1), C09/C11/C12: the
# cleaning process ingests only the late part of the capture
N_LATE = 600
SIZES_LATE = {"quick": {"C09": 40, "C10": 0, "C11": 150, "C12": 40},
              "thorough": {"C09": N_LATE, "C10": 0, "C11": N_LATE,
                           "C12": N_LATE}}
# growing-trace family (world_store.GROW_BASE + 0..N_GROW-1), C09/C11/C12: two
# pipeline runs over one file, late descendant spans change shapes in run 2
N_GROW = 600
SIZES_GROW = {"quick": {"C09": 80, "C10": 0, "C11": 40, "C12": 40},
              "thorough": {"C09": N_GROW, "C10": 0, "C11": N_GROW,
                           "C12": N_GROW}}
# many-traces family (world_store.LARGE_BASE + MANY_FROM + 0..N_MANY-1): more
# candidate roots than one page of 999 / 1000 rows
N_MANY = 120
SIZES_MANY = {"quick": {"C09": 12, "C10": 6, "C11": 4, "C12": 4},
              "thorough": {p: N_MANY for p in ("C09", "C10", "C11", "C12")}}
SIZES_LARGE = {"quick": {"C09": 16, "C10": 64, "C11": 24, "C12": 24},
               "thorough": {p: N_LARGE for p in ("C09", "C10", "C11", "C12")}}

ASSUMPTIONS = [
    "store model of sim/world_store.py written from the documentation: first "
    "delivery of a span id wins, links of the winners, a trace is broken when "
    "a parent id is not stored, window = [min start + buffer, max end - "
    "buffer] over what the pipeline process ingested, shape = (type, multiset "
    "of child shapes)",
    "rows are read straight from SQLite with the sqlite3 module, not through "
    "the code under test",
    "each otel2pv process is a forked child over one SQLite file on /dev/shm; "
    "find_unique_graphs is called once per process (it registers a temporary "
    "table on process-global metadata)",
    "scenarios come from the fixed pre-soaked grid (prop, index); VERIF_SEED "
    "selects the indices",
]


def hash_class_of(idx: int) -> int:
    return idx % 16


def variant(scen: dict, k: int) -> dict:
    """Same trace multiset, other order and batch size (C09 history)."""
    r = random.Random(core.derive(ws.SCEN_SALT, "variant", scen["id"], k))
    v = copy.deepcopy(scen)
    # identical duplicates stay; differing ones would change which delivery
    # is first, i.e. the trace multiset itself
    allsp = [s for p in v["processes"] for s in p["deliver"]
             if not (s.get("dup") and s["type"] == "DUP")]
    r.shuffle(allsp)
    v["processes"] = [{"deliver": allsp}]
    v["batch_size"] = r.choice([b for b in (1, 2, 3, 5, 1000)
                                if b != scen["batch_size"]])
    v["id"] = f"{scen['id']}/v{k}"
    return v


def c10_exhaustive(max_len: int) -> list[dict]:
    """Small-scope exhaustive part of C10: every delivery stream of up to
    max_len spans over the ids a <- b <- c (k-th occurrence of an id carries
    a different payload, every second duplicate also a different parent),
    every batch size 1..len+1, and for streams of <= 4 deliveries every cut
    into two ingest processes over the same file."""
    import itertools

    base = {"a": None, "b": "a", "c": "b"}
    units = []
    for n in range(1, max_len + 1):
        for word in itertools.product("abc", repeat=n):
            occ: dict = {}
            stream = []
            for i, x in enumerate(word):
                k = occ.get(x, 0)
                occ[x] = k + 1
                parent = base[x]
                if (x == "c" and k % 2 == 1) or (x == "b" and k
                                                     and k % 2 == 0):
                    parent = "a" if parent != "a" else "c"
                stream.append({
                    "id": x, "trace": "t", "type": f"{x}{k}",
                    "parent": parent, "st": ws.T0 + 10 * i,
                    "en": ws.T0 + 10 * i + 5, "name": "W", "app": "app",
                    **({"dup": True} if k else {})})
            cuts = [None] + (list(range(1, n)) if n <= 4 else [])
            for bs in range(1, n + 2):
                for cut in cuts:
                    procs = ([{"deliver": stream}] if cut is None else
                             [{"deliver": stream[:cut]},
                              {"deliver": stream[cut:]}])
                    scen = {"id": f"C10:exh:{''.join(word)}:{bs}:{cut}",
                            "focus": "C10", "batch_size": bs,
                            "time_buffer": 0, "mode": "exhaustive",
                            "processes": procs, "kinds": ["ok", "exh"],
                            "pipeline": False, "stream_filter": {},
                            "filter_names": []}
                    units.append({"kind": "store", "prop": "C10",
                                  "idx": -1, "scenario": scen,
                                  "hash_class": len(units) % 16,
                                  "exhaustive": True})
    return units


def small_shapes(max_nodes: int = 3, labels="AB"):
    """All rooted trees with <= max_nodes nodes over the labels, as
    (label, (sorted children...))."""
    import itertools

    by_n = {1: [(x, ()) for x in labels]}
    for n in range(2, max_nodes + 1):
        out = set()
        # children multisets whose sizes sum to n - 1
        def parts(total, maxpart):
            if total == 0:
                yield ()
                return
            for p in range(min(total, maxpart), 0, -1):
                for rest in parts(total - p, p):
                    yield (p,) + rest
        for part in parts(n - 1, n - 1):
            for kids in itertools.product(*[by_n[p] for p in part]):
                for x in labels:
                    out.add((x, tuple(sorted(kids))))
        by_n[n] = sorted(out)
    return [t for n in sorted(by_n) for t in by_n[n]]


def c09_exhaustive(tier: str) -> list[dict]:
    """Small-scope exhaustive part of C09: every unordered pair of call-tree
    shapes with <= 3 spans over two labels (same-shape pairs with the
    sibling order reversed), under one and under two workflow names, batch
    sizes 1/2/3/large, parents-first and children-first delivery."""
    shapes = small_shapes(3)
    units = []
    t0 = ws.T0 + 137

    def spans_of(shape, tid, name, base, rev):
        out = []

        def emit(node, parent, st):
            sid = f"{tid}-{len(out)}"
            out.append(dict(id=sid, trace=tid, type=node[0], parent=parent,
                            st=st, en=st + 50, name=name, app="app"))
            kids = list(node[1])
            if rev:
                kids.reverse()
            for j, kd in enumerate(kids):
                emit(kd, sid, st + 1 + j)

        emit(shape, None, base)
        return out

    anchor = [dict(id="anchor-r", trace="anchor", type="R", parent=None,
                   st=t0, en=t0 + ws.HORIZON, name="WA", app="app"),
              dict(id="anchor-c", trace="anchor", type="X",
                   parent="anchor-r", st=t0 + 1000, en=t0 + 2000, name="WA",
                   app="app")]
    bss = [1, 2, 3, 1000] if tier == "thorough" else [1, 2, 1000]
    for i, a in enumerate(shapes):
        for j in range(i, len(shapes)):
            b = shapes[j]
            for names in ([("WA", "WA")] + ([("WA", "WB")] if i == j
                                            else [])):
                for bs in bss:
                    for mode in ("inorder", "children-first"):
                        ta = spans_of(a, "t0", names[0], t0 + 10**6, False)
                        tb = spans_of(b, "t1", names[1], t0 + 2 * 10**6,
                                      True)
                        stream = anchor + ta + tb
                        if mode == "children-first":
                            stream = list(reversed(stream))
                        scen = {
                            "id": f"C09:exh:{i}:{j}:{names[1]}:{bs}:{mode}",
                            "focus": "C09", "batch_size": bs,
                            "time_buffer": 0, "mode": mode,
                            "processes": [{"deliver": stream}],
                            "kinds": ["anchor", "ok", "ok"],
                            "pipeline": True, "stream_filter": {},
                            "filter_names": ["WA"]}
                        units.append({"kind": "store", "prop": "C09",
                                      "idx": -1, "scenario": scen,
                                      "hash_class": len(units) % 16,
                                      "exhaustive": True})
    return units


def build_units(prop, tier, seed, scale, findings):
    n = scaled(SIZES[tier], scale)
    if prop == "C09":
        n = n // 3
    r = random.Random(core.derive(seed, prop, "scenarios"))
    idxs = r.sample(range(N_SCEN), min(n, N_SCEN))
    for f in findings:
        if f["property"] == prop and f.get("status") == "known" and f.get(
                "pin"):
            idxs.insert(0, f["pin"]["idx"])
    units = []
    if prop == "C10":
        units += c10_exhaustive(4 if tier == "quick" else 6)
    if prop == "C09":
        units += c09_exhaustive(tier)
    nl = scaled(SIZES_LARGE[tier][prop], scale)
    rl = random.Random(core.derive(seed, prop, "large-scenarios"))
    idxs += [ws.LARGE_BASE + i
             for i in sorted(rl.sample(range(N_LARGE), min(nl, N_LARGE)))]
    nm = scaled(SIZES_MIXED[tier][prop], scale) if SIZES_MIXED[tier][
        prop] else 0
    rm = random.Random(core.derive(seed, prop, "mixed-scenarios"))
    pool_m = range(MIXED_FROM[prop], N_MIXED)
    idxs += [ws.MIXED_BASE + i
             for i in sorted(rm.sample(pool_m, min(nm, len(pool_m))))]
    nlate = scaled(SIZES_LATE[tier][prop], scale) if SIZES_LATE[tier][
        prop] else 0
    rlate = random.Random(core.derive(seed, prop, "late-scenarios"))
    idxs += [ws.LATE_BASE + i
             for i in sorted(rlate.sample(range(N_LATE),
                                          min(nlate, N_LATE)))]
    for fam, sizes, n_fam, base in (
            ("grow", SIZES_GROW, N_GROW, ws.GROW_BASE),
            ("many", SIZES_MANY, N_MANY, ws.LARGE_BASE + ws.MANY_FROM)):
        nf = scaled(sizes[tier][prop], scale) if sizes[tier][prop] else 0
        rf = random.Random(core.derive(seed, prop, fam + "-scenarios"))
        idxs += [base + i for i in sorted(rf.sample(range(n_fam),
                                                    min(nf, n_fam)))]
    for i in dict.fromkeys(idxs):
        u = {"kind": "store", "prop": prop, "idx": i,
             "hash_class": hash_class_of(i),
             "differential": prop == "C11"}
        units.append(u)
        if prop == "C09" and i < ws.LARGE_BASE:
            scen = ws.gen_scenario(prop, i)
            for k in (1, 2):
                units.append({"kind": "store", "prop": prop, "idx": i,
                              "variant": k, "scenario": variant(scen, k),
                              "hash_class": hash_class_of(i + k)})
    return units


def classes(prop, r):
    return [e[0] for e in r.get("errs", {}).get(prop, [])
            if e[0] != "harness"]


def minimise(pool, prop, unit, rec, cls, budget=80):
    scen = unit.get("scenario") or ws.gen_scenario(unit["prop"], unit["idx"])
    best = copy.deepcopy(scen)
    spent = 0
    if sum(len(p["deliver"]) for p in scen["processes"]) > 400:
        # large-scale / many-traces scenarios: seconds per candidate run
        budget = min(budget, 12)

    def fails(s):
        nonlocal spent
        spent += 1
        u = {"kind": "store", "prop": prop, "scenario": s,
             "hash_class": unit["hash_class"],
             "differential": unit.get("differential", False)}
        rr = pool.map([u])[0]
        return cls in classes(prop, rr), rr

    best_r = rec
    # drop whole traces (never the anchor)
    tids = sorted({s["trace"] for p in best["processes"]
                   for s in p["deliver"]} - {"anchor"})
    for t in tids:
        if spent >= budget:
            break
        c = copy.deepcopy(best)
        for p in c["processes"]:
            p["deliver"] = [s for s in p["deliver"] if s["trace"] != t]
        c["processes"] = [p for i, p in enumerate(c["processes"])
                          if p["deliver"] or i == len(c["processes"]) - 1]
        ok, rr = fails(c)
        if ok:
            best, best_r = c, rr
    # drop single deliveries (duplicates first)
    for want_dup in (True, False):
        i = 0
        while spent < budget:
            flat = [(pi, si) for pi, p in enumerate(best["processes"])
                    for si, s in enumerate(p["deliver"])
                    if bool(s.get("dup")) == want_dup
                    and s["trace"] != "anchor"]
            if i >= len(flat):
                break
            pi, si = flat[i]
            c = copy.deepcopy(best)
            del c["processes"][pi]["deliver"][si]
            ok, rr = fails(c)
            if ok:
                best, best_r = c, rr
            else:
                i += 1
    # merge processes, simplify knobs
    for mut in ("merge", "buf0", "bs1"):
        if spent >= budget:
            break
        c = copy.deepcopy(best)
        if mut == "merge" and len(c["processes"]) > 1:
            c["processes"] = [{"deliver": [s for p in c["processes"]
                                           for s in p["deliver"]]}]
        elif mut == "buf0" and c["time_buffer"]:
            c["time_buffer"] = 0
        elif mut == "bs1" and c["batch_size"] != 1:
            c["batch_size"] = 1
        else:
            continue
        ok, rr = fails(c)
        if ok:
            best, best_r = c, rr
    best["id"] = scen["id"] + "/min"
    return best, best_r


def main(prop, argv=None):
    run = CheckRun(prop, argv)
    if run.replay:
        return replay(run, prop)
    units = build_units(prop, run.tier, run.seed, run.scale, run.findings)
    crash_units = []
    if prop == "C10":
        # non-gating crash-point observations (DESIGN 2.4)
        rc = random.Random(core.derive(run.seed, prop, "crash"))
        for i in rc.sample(range(N_SCEN), scaled(
                150 if run.tier == "quick" else 1200, run.scale)):
            crash_units.append({"kind": "crash", "idx": i,
                                "hash_class": hash_class_of(i),
                                "phase": rc.choice(["before", "between"]),
                                "at": rc.randint(1, 4)})
    with core.Pool(WORLD, run.nproc) as pool:
        crash_obs = pool.map(crash_units)
        results = pool.map(units)
        stats: dict = {}
        faults = {"duplicate_deliveries": 0, "multi_process_histories": 0,
                  "process_restarts": 0, "traces_removed_broken": 0,
                  "traces_removed_outside": 0, "reordered_streams": 0}
        kinds: dict = {}
        probes = {"integrity_fallback_runs": 0, "fallback_calls": 0,
                  "root_paging_over_one_page": 0,
                  "same_shape_groups": 0, "differential_worlds": 0,
                  "batch_smaller_than_a_trace": 0,
                  "large_scale_scenarios": 0,
                  "traces_with_combined_faults": 0,
                  "late_window_scenarios": 0,
                  "growing_trace_histories": 0,
                  "stores_with_more_than_1000_roots": 0,
                  "late_window_outside_removed_at_buffer_0": 0,
                  "flush_batch_of_1000_or_more_spans_in_fallback": 0}
        batch_sizes: dict = {}
        states = set()
        distinct = set()
        samples = []
        new_v: dict = {}
        shape_sets: dict = {}
        for u, r in zip(units, results):
            st = r.get("status", "?")
            stats[st] = stats.get(st, 0) + 1
            if st != "ok":
                run.harness_error(f"{prop}:{u['idx']}: {st} "
                                  f"{str(r.get('detail'))[:300]}")
                continue
            if ws.LARGE_BASE <= u["idx"] < ws.MIXED_BASE:
                probes["large_scale_scenarios"] += 1
                if r.get("batch_size", 0) >= 1000 and r.get(
                        "n_spans", 0) >= 1000 and r.get("probes", {}).get(
                        "fallback"):
                    probes["flush_batch_of_1000_or_more_spans_in_fallback"] \
                        += 1
            if u["idx"] >= ws.GROW_BASE:
                probes["growing_trace_histories"] += 1
            elif ws.LARGE_BASE + ws.MANY_FROM <= u["idx"] < ws.MIXED_BASE:
                probes["stores_with_more_than_1000_roots"] += 1
            if ws.LATE_BASE <= u["idx"] < ws.GROW_BASE:
                probes["late_window_scenarios"] += 1
                probes["late_window_outside_removed_at_buffer_0"] += (
                    r.get("time_buffer") == 0
                    and "outside" in r.get("removed", {}).values())
            probes["traces_with_combined_faults"] += sum(
                "+" in k for k in r.get("kinds", []))
            for e in r["errs"].get(prop, []):
                if e[0] == "harness":
                    run.harness_error(f"{r['id']}: {e[1]}")
            faults["duplicate_deliveries"] += r["n_dup"]
            faults["multi_process_histories"] += r["n_processes"] > 1
            faults["process_restarts"] += r["n_processes"] - 1
            faults["reordered_streams"] += r.get("mode") != "inorder"
            for t, why in r["removed"].items():
                faults["traces_removed_" + why] += 1
            for k in r["kinds"]:
                kinds[k] = kinds.get(k, 0) + 1
            faults["streams_abandoned_mid_read"] = faults.get(
                "streams_abandoned_mid_read", 0) + r["probes"].get(
                "abandoned_streams", 0)
            probes["integrity_fallback_runs"] += r["probes"]["fallback"] > 0
            probes["fallback_calls"] += r["probes"]["fallback"]
            probes["root_paging_over_one_page"] += r["probes"][
                "root_pages"] > 1
            probes["same_shape_groups"] += r["same_shape_groups"]
            probes["differential_worlds"] += bool(r.get("diff_ran"))
            probes["batch_smaller_than_a_trace"] += r["batch_size"] <= 2
            batch_sizes[str(r["batch_size"])] = batch_sizes.get(
                str(r["batch_size"]), 0) + 1
            states.add(r["state_digest"])
            nt = (r["n_dup"] + r["n_processes"] - 1 + len(r["removed"])
                  + (r.get("mode") != "inorder")) >= 1 and len(
                r["kinds"]) >= 2
            if nt:
                distinct.add(r["id"])
            if len(samples) < 2 and nt and r["n_spans"] <= 14:
                scen = u.get("scenario") or ws.gen_scenario(prop, u["idx"])
                samples.append({
                    "scenario": scen["id"], "batch_size": scen["batch_size"],
                    "time_buffer": scen["time_buffer"],
                    "processes": [[
                        f"{s['id']}({s['type']},parent={s['parent']},"
                        f"wf={s['name']}" + (",DUP" if s.get("dup") else "")
                        + ")" for s in p["deliver"]]
                        for p in scen["processes"]],
                    "removed_by_cleaning": r["removed"],
                    "log_digest": r["log_digest"]})
            if prop == "C09" and u["idx"] >= 0:
                shape_sets.setdefault(u["idx"], set()).add(
                    json.dumps(r["shapes"], sort_keys=True))
            for cls in classes(prop, r):
                key = {"scenario": r["id"], "violation_class": cls}
                if core.match_known(prop, key, run.findings):
                    run.violation(key, "")
                else:
                    new_v.setdefault((r["id"], cls), (u, r))
        if prop == "C09":
            for idx, s in shape_sets.items():
                if len(s) > 1:
                    # the model's own shape sets are order independent, so
                    # this can only fire on a harness bug
                    run.harness_error(f"C09:{idx}: model shape sets differ "
                                      f"between variants")
        for n, ((sid, cls), (u, r)) in enumerate(sorted(new_v.items())):
            detail = [e for e in r["errs"][prop] if e[0] == cls][0][1]
            if n < 4:
                ms, mr = minimise(pool, prop, u, r, cls)
            else:
                ms, mr = (u.get("scenario")
                          or ws.gen_scenario(prop, u["idx"])), r
            pay = {"kind": "store", "violation_class": cls,
                   "unit": {"kind": "store", "prop": prop, "scenario": ms,
                            "hash_class": u["hash_class"],
                            "differential": u.get("differential", False)},
                   "hash_seed": core.hash_seed_of_class(u["hash_class"]),
                   "digest": mr["log_digest"], "original": sid,
                   "detail": [e for e in mr["errs"][prop]][:5]}
            run.violation({"scenario": sid, "violation_class": cls},
                          f"{sid}: {cls}: {detail[:200]}", pay)
    observations = None
    if crash_units:
        ok = [o for o in crash_obs if o.get("status") == "ok"]
        crashed = [o for o in ok if o.get("crashed")]
        observations = {
            "what": "NOT a verdict of C10: an ingest process is killed at a "
                    "seeded flush (before the batch commit, or between the "
                    "commit of the nodes and of their associations) and a "
                    "second process ingests the same stream again; reported "
                    "is whether the store then equals the first-wins model",
            "histories": len(crash_obs),
            "process_killed": len(crashed),
            "killed_before_commit": sum(o["phase"] == "before"
                                        for o in crashed),
            "killed_between_node_and_link_commit": sum(
                o["phase"] == "between" for o in crashed),
            "store_consistent_after_recovery": sum(
                bool(o.get("consistent")) for o in crashed),
            "recovery_lost_links": sum(
                1 for o in crashed if o.get("lost_links")),
            "recovery_process_failed": sum(
                1 for o in crashed if o.get("recovery") != "ok"),
            "by_phase_inconsistent": {
                ph: sum(1 for o in crashed if o["phase"] == ph
                        and not o.get("consistent"))
                for ph in ("before", "between")},
            "example_inconsistent": next(
                (o for o in crashed if not o.get("consistent")), None),
        }
    cov = {
        "evaluations": len(units),
        "distinct_nontrivial": len(distinct),
        "rule": "one evaluation = one scenario: an explicit operation list "
                "(knobs, 1-3 otel2pv processes over one SQLite file, explicit "
                "span deliveries with faults) executed against the real store "
                "and the model; distinct = distinct scenario ids; non-trivial "
                "= >=2 traces and >=1 fault fired (duplicate, restart, trace "
                "removed by cleaning, or reordered delivery)",
        "samples": samples,
        "statuses": stats,
        "faults_fired": faults,
        "trace_kinds_generated": kinds,
        "probes": probes,
        "batch_sizes": batch_sizes,
        "distinct_store_states": len(states),
        "exhaustive_small_scope_units": sum(
            1 for u in units if u.get("exhaustive")),
        "simulated_processes": sum(r.get("n_processes", 0) for r in results),
        "simulated_time_ns": ws.HORIZON * len(units),
        "seeds": {"VERIF_SEED": run.seed, "scenario_salt": ws.SCEN_SALT},
    }
    if observations:
        cov["observations"] = observations
        cov["faults_fired"]["process_killed_mid_run_non_gating"] = \
            observations["process_killed"]
    run.finish(cov, ASSUMPTIONS)


def replay(run, prop):
    pay = json.load(open(run.replay))
    with core.Pool(WORLD, 1) as pool:
        r = pool.map([pay["unit"]])[0]
    cls = classes(prop, r)
    print(f"# replay classes={cls} digest_equal="
          f"{r.get('log_digest') == pay.get('digest')}")
    if pay["violation_class"] in cls:
        print(f"VIOLATION property={prop} replay={run.replay}")
        raise SystemExit(1)
    raise SystemExit(0)
