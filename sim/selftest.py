"""Framework self-tests (DESIGN.md 2.7).

  ./check selftest determinism [--n N]
      the same units are executed in two separately started driver processes
      (different outer PYTHONHASHSEED, worker counts 16 and 2, reversed unit
      order) and the per-unit event-log digests are diffed.
  ./check selftest mutants [--only id,id] [--tier quick]
      every seeded change under /verif/seeded/<id>/patch.diff is applied to a
      scratch copy of /repo (outside /repo and /verif, removed afterwards) and
      the checks named in its meta.json must report a VIOLATION of the
      intended property (exit 1), while the unchanged tree stays quiet.
"""
from __future__ import annotations

import argparse
import json
import os
import shutil
import subprocess
import sys
import tempfile
import time

from . import core


def _units(n: int):
    from . import grid, gen_defs, checks_store, checks_cli, check_c04, \
        check_c06, world_cli

    out = {"world_learner": [], "world_store": [], "world_cli": [],
           "world_gates": []}
    wids = ["corpus:" + f for f in gen_defs.corpus_files()[:: max(1, 63 // n)]]
    i = 0
    while len(wids) < 2 * n:
        if not gen_defs.excluded_by(gen_defs.gen_def(i)):
            wids.append(f"gen:{i}")
        i += 7
    for k, w in enumerate(wids):
        out["world_learner"].append(grid.learn_unit(w, (k * 5) % 32))
    for k, w in enumerate(wids[: max(2, n // 4)]):
        out["world_learner"].append(check_c04.c04_unit(w, (k * 3) % 32))
    for prop in ("C09", "C10", "C11", "C12"):
        for k in range(n):
            idx = k * 37 + 11
            out["world_store"].append(
                {"kind": "store", "prop": prop, "idx": idx,
                 "hash_class": idx % 16, "differential": prop == "C11"})
    for k in range(max(2, n // 3)):
        idx = k * 41 + 3
        out["world_cli"].append({"kind": "c14", "idx": idx,
                                 "hash_class": idx % 16, "uuid_seed": 7 + k})
        out["world_cli"].append({
            "kind": "c15", "idx": idx, "hash_class": idx % 16,
            "uuid_seed": 9 + k,
            "history": [checks_cli.FLAGS[0], checks_cli.FLAGS[k % 8],
                        checks_cli.FLAGS[(k * 3 + 1) % 8]]})
    for s in range(4):
        u = check_c06.sched(s * 5 + 1)
        u.update(kind="c06", n=4, indices=list(range(s * 20, s * 20 + 20)))
        out["world_gates"].append(u)
    return out


def _digest_of(world: str, r: dict) -> str:
    from . import checks_learner, check_c04

    if world == "world_learner":
        if "step_status" in r or "ref_status" in r:
            return check_c04.log_digest(r)
        return checks_learner.log_digest(r)
    if world == "world_gates":
        return core.digest(r.get("recs"))
    return str(r.get("log_digest")) + "/" + str(r.get("status"))


def emit(n: int, nproc: int, reverse: bool):
    allu = _units(n)
    res = {}
    for world, units in allu.items():
        order = list(range(len(units)))
        if reverse:
            order.reverse()
        rs = core.run_units(world, [units[i] for i in order], nproc=nproc)
        for i, r in zip(order, rs):
            res[f"{world}/{i}"] = _digest_of(world, r)
    print("DIGESTS " + json.dumps(res, sort_keys=True))


def determinism(n: int) -> int:
    outs = []
    for hs, nproc, rev in (("0", 16, False), ("4242", 2, True)):
        env = dict(os.environ, PYTHONHASHSEED=hs)
        p = subprocess.run(
            [core.PYTHON, "-m", "sim.selftest", "_emit", str(n), str(nproc),
             "1" if rev else "0"], cwd=core.VERIF, env=env,
            capture_output=True, text=True, timeout=3600)
        line = [ln for ln in p.stdout.splitlines() if ln.startswith(
            "DIGESTS ")]
        if p.returncode != 0 or not line:
            print(p.stdout[-2000:], p.stderr[-2000:])
            print("HARNESS-ERROR selftest emit failed")
            return 2
        outs.append(json.loads(line[0][8:]))
    a, b = outs
    diff = sorted(k for k in a if a[k] != b.get(k))
    print(f"# determinism: {len(a)} units executed twice in fresh "
          f"interpreters (outer hash seeds 0/4242, worker counts 16/2, "
          f"reversed order): {len(diff)} differ")
    for k in diff[:20]:
        print("#   DIFF", k, a[k], b.get(k))
    none = [k for k, v in a.items() if v.startswith("None")]
    if none:
        print(f"#   {len(none)} units without digest (harness problem): "
              f"{none[:5]}")
        return 2
    return 1 if diff else 0


# ---------------------------------------------------------------------------
def mutants(only, tier: str, keep_going=True) -> int:
    where = {}
    for sub in ("seeded", "mutants"):
        root = os.path.join(core.VERIF, sub)
        if os.path.isdir(root):
            for d in os.listdir(root):
                if os.path.exists(os.path.join(root, d, "patch.diff")):
                    where[d] = root
    ids = sorted(where)
    if only:
        ids = [i for i in ids if i in only]
    rows = []
    bad = 0
    for mid in ids:
        seeded = where[mid]
        meta = json.load(open(os.path.join(seeded, mid, "meta.json")))
        tmp = tempfile.mkdtemp(prefix="verif-mutant-", dir="/tmp")
        scratch = os.path.join(tmp, "repo")
        try:
            subprocess.run(
                ["rsync", "-a", "--exclude", ".git", "--exclude",
                 "__pycache__", core.REPO + "/", scratch + "/"], check=True)
            p = subprocess.run(
                ["patch", "-p1", "-s", "-i",
                 os.path.join(seeded, mid, "patch.diff")],
                cwd=scratch, capture_output=True, text=True)
            if p.returncode != 0:
                rows.append((mid, "-", "patch does not apply", 0))
                bad += 1
                continue
            for chk in meta["detected_by"]:
                t0 = time.time()
                env = dict(os.environ, VERIF_REPO=scratch,
                           VERIF_EVIDENCE_DIR=os.path.join(tmp, "evidence"),
                           VERIF_REPLAY_DIR=os.path.join(tmp, "replays"))
                q = subprocess.run(
                    [os.path.join(core.VERIF, "check"), chk, "--tier", tier]
                    + meta.get("check_args", []),
                    cwd=core.VERIF, env=env, capture_output=True, text=True,
                    timeout=7200)
                hit = q.returncode == 1 and f"VIOLATION property={chk}" in \
                    q.stdout
                first = next((ln for ln in q.stdout.splitlines()
                              if ln.startswith("#   ")), "")
                rows.append((mid, chk, "DETECTED" if hit else
                             f"MISSED (exit {q.returncode})",
                             round(time.time() - t0), first[:150]))
                if not hit:
                    bad += 1
        finally:
            shutil.rmtree(tmp, ignore_errors=True)
    # persist (merge) the table: DESIGN.md 9.6 is generated from it
    resf = os.path.join(core.VERIF, "mutant_results.json")
    try:
        table = json.load(open(resf))
    except Exception:
        table = {}
    for r in rows:
        if len(r) >= 5:
            table.setdefault(r[0], {})[r[1]] = {
                "result": r[2], "tier": tier, "seconds": r[3],
                "first_violation": r[4].replace("#   ", "")}
    with open(resf, "w") as f:
        json.dump(table, f, indent=1, sort_keys=True)
    for r in rows:
        print("# mutant", *r)
    print(f"# mutants: {len(rows)} (mutant, check) pairs, {bad} not detected")
    return 1 if bad else 0


def refactors(only, tier: str) -> int:
    """Behaviour-preserving changes under /verif/refactors/<id>/: every check
    named in meta.json ("checks") must stay quiet (exit 0, no VIOLATION) on
    the changed tree - the false-alarm side of the sensitivity test."""
    root = os.path.join(core.VERIF, "refactors")
    ids = sorted(d for d in os.listdir(root)
                 if os.path.exists(os.path.join(root, d, "patch.diff")))
    if only:
        ids = [i for i in ids if i in only]
    bad = 0
    rows = []
    for rid in ids:
        meta = json.load(open(os.path.join(root, rid, "meta.json")))
        tmp = tempfile.mkdtemp(prefix="verif-refactor-", dir="/tmp")
        scratch = os.path.join(tmp, "repo")
        try:
            subprocess.run(
                ["rsync", "-a", "--exclude", ".git", "--exclude",
                 "__pycache__", core.REPO + "/", scratch + "/"], check=True)
            p = subprocess.run(
                ["patch", "-p1", "-s", "-i",
                 os.path.join(root, rid, "patch.diff")],
                cwd=scratch, capture_output=True, text=True)
            if p.returncode != 0:
                rows.append((rid, "-", "patch does not apply", 0))
                bad += 1
                continue
            for chk in meta["checks"]:
                t0 = time.time()
                env = dict(os.environ, VERIF_REPO=scratch,
                           VERIF_EVIDENCE_DIR=os.path.join(tmp, "evidence"),
                           VERIF_REPLAY_DIR=os.path.join(tmp, "replays"))
                q = subprocess.run(
                    [os.path.join(core.VERIF, "check"), chk, "--tier", tier],
                    cwd=core.VERIF, env=env, capture_output=True, text=True,
                    timeout=7200)
                quiet = q.returncode == 0 and "VIOLATION" not in q.stdout
                first = next((ln for ln in q.stdout.splitlines()
                              if ln.startswith("#   ")), "")
                rows.append((rid, chk, "QUIET" if quiet else
                             f"ALARM (exit {q.returncode})",
                             round(time.time() - t0), first[:200]))
                if not quiet:
                    bad += 1
        finally:
            shutil.rmtree(tmp, ignore_errors=True)
    resf = os.path.join(core.VERIF, "refactor_results.json")
    try:
        table = json.load(open(resf))
    except Exception:
        table = {}
    for r in rows:
        if len(r) >= 5:
            table.setdefault(r[0], {})[r[1]] = {
                "result": r[2], "tier": tier, "seconds": r[3],
                "first_line": r[4]}
    with open(resf, "w") as f:
        json.dump(table, f, indent=1, sort_keys=True)
    for r in rows:
        print("# refactor", *r)
    print(f"# refactors: {len(rows)} (refactor, check) pairs, {bad} alarms")
    return 1 if bad else 0


def main(argv):
    ap = argparse.ArgumentParser(prog="check selftest")
    ap.add_argument("what", choices=["determinism", "mutants", "refactors"])
    ap.add_argument("--n", type=int, default=12)
    ap.add_argument("--only", default="")
    ap.add_argument("--tier", default="quick")
    a = ap.parse_args(argv)
    if a.what == "determinism":
        sys.exit(determinism(a.n))
    if a.what == "refactors":
        sys.exit(refactors([x for x in a.only.split(",") if x], a.tier))
    sys.exit(mutants([x for x in a.only.split(",") if x], a.tier))


if __name__ == "__main__":
    if len(sys.argv) > 1 and sys.argv[1] == "_emit":
        emit(int(sys.argv[2]), int(sys.argv[3]), sys.argv[4] == "1")
    else:
        main(sys.argv[1:])
