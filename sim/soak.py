"""Build-time soak of the schedule grid (not a registered check).

usage: python -m sim.soak --gen LO HI [--corpus] --sids 0,1,2 --out file.jsonl
Writes one compact JSON line per grid point and prints a summary of every
point on which some learner oracle fails."""
from __future__ import annotations

import argparse
import json
import sys
import time

from . import core, gen_defs, grid


def classify(r: dict) -> list[str]:
    """Violation classes visible in one learner record."""
    out = []
    st = r.get("status")
    if st in ("toobig", "unsupported"):
        return []
    if st and st.startswith("harness"):
        return ["HARNESS:" + st]
    if st == "no-termination":
        out.append("C01:no-termination")
    elif st == "exc":
        out.append("C01:exception:" + r.get("exc", "").split(":")[0])
    if r.get("c07"):
        out.append("C07:" + r["c07"][0][0])
    if st != "ok":
        return out
    if r.get("parse") == "unparseable":
        out.append("C01:unparseable")
    if r.get("strict"):
        out.append("C05:" + r["strict"][0])
    if r.get("leaks"):
        out.append("C05:placeholder-leak")
    if r.get("names_missing"):
        out.append("C05:name-missing")
    if r.get("names_extra"):
        out.append("C05:name-extra")
    if r.get("c01_rejected"):
        out.append("C01:job-rejected")
    if r.get("c02_extra"):
        out.append("C02:extra-job")
    return out


def main():
    ap = argparse.ArgumentParser()
    ap.add_argument("--gen", nargs=2, type=int, default=None)
    ap.add_argument("--corpus", action="store_true")
    ap.add_argument("--sids", default="0")
    ap.add_argument("--out", default=None)
    ap.add_argument("--no-exclude", action="store_true")
    ap.add_argument("--only-excluded", action="store_true")
    ap.add_argument("--genx", nargs=2, type=int, default=None)
    ap.add_argument("--geny", nargs=2, type=int, default=None)
    ap.add_argument("--sub", action="store_true",
                    help="soak the fixed sub-sample #s1 of each workload")
    ap.add_argument("--nproc", type=int, default=None)
    a = ap.parse_args()
    if "-" in a.sids:
        lo, hi = a.sids.split("-")
        sids = list(range(int(lo), int(hi) + 1))
    else:
        sids = [int(x) for x in a.sids.split(",")]
    wids = []
    excluded = {}
    if a.corpus:
        wids += ["corpus:" + f for f in gen_defs.corpus_files()]
    if a.gen:
        for i in range(a.gen[0], a.gen[1]):
            d = gen_defs.gen_def(i)
            ex = None if a.no_exclude else gen_defs.excluded_by(d)
            if a.only_excluded:
                if not ex:
                    continue
                ex = None
            if ex:
                excluded[ex] = excluded.get(ex, 0) + 1
                continue
            wids.append(f"gen:{i}")
    if a.genx:
        for i in range(a.genx[0], a.genx[1]):
            ex = gen_defs.excluded_by(gen_defs.genx_def(i))
            if a.only_excluded != bool(ex) and not a.no_exclude:
                continue
            wids.append(f"genx:{i}")
    if a.geny:
        for i in range(a.geny[0], a.geny[1]):
            ex = gen_defs.excluded_by(gen_defs.geny_def(i))
            if a.only_excluded != bool(ex) and not a.no_exclude:
                continue
            wids.append(f"geny:{i}")
    if a.sub:
        wids = [w + "#s1" for w in wids]
    units = [grid.learn_unit(w, s) for w in wids for s in sids]
    t0 = time.time()

    def prog(d, n):
        if d % 500 == 0:
            print(f"  {d}/{n} {time.time()-t0:.0f}s", file=sys.stderr,
                  flush=True)

    res = core.run_units("world_learner", units, nproc=a.nproc, progress=prog)
    wall = time.time() - t0
    stats: dict = {}
    bad: dict = {}
    outf = open(a.out, "w") if a.out else None
    for u, r in zip(units, res):
        cls = classify(r)
        key = r.get("status") if not cls else "|".join(cls)
        stats[key] = stats.get(key, 0) + 1
        if cls:
            bad.setdefault(u["wid"], {}).setdefault("|".join(cls), []).append(
                u["sched"])
        if outf:
            rr = {k: v for k, v in r.items()
                  if k not in ("text", "present", "names_in")}
            if cls:
                rr["text"] = r.get("text")
            rr["cls"] = cls
            outf.write(json.dumps(rr) + "\n")
    print(json.dumps({"units": len(units), "wall_s": round(wall, 1),
                      "excluded": excluded, "stats": stats}, indent=1))
    for w, d in sorted(bad.items()):
        print(w, {k: (len(v), v[:6]) for k, v in d.items()})


if __name__ == "__main__":
    main()
