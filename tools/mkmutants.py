"""Build-time tool: generate the hand-written sensitivity mutants of
DESIGN.md 2.7 as patch files under /verif/mutants/<id>/ (patch.diff +
meta.json).  Each mutant is a (file, old, new) replacement applied to a scratch
copy of /repo; a mutant is kept only if the pinned test suite still gives
120 passed on it (checked here)."""
import json
import os
import shutil
import subprocess
import sys
import tempfile

REPO = "/repo"
OUT = "/verif/mutants"
SDH = "tel2puml/otel_to_pv/data_holders/sql_data_holder/sql_dataholder.py"

M = [
    # id, property, detected_by, file, old, new, description
    ("h-c09-nosort", "C09", ["C09"], SDH,
     """            sorted(
                compute_graph_hash_from_event_ids(child, node_to_children)
                for child in children
            )""",
     """            [
                compute_graph_hash_from_event_ids(child, node_to_children)
                for child in children
            ]""",
     "tree hash no longer sorts the child hashes: sibling order leaks into "
     "the shape hash"),
    ("h-c09-paging", "C09", ["C09"], SDH,
     "        start_row += batch_size\n",
     "        start_row += batch_size + 1\n",
     "root paging skips one root per page"),
    ("h-c09-grouphash", "C09", ["C09"], SDH,
     """        stmt = sa.select(JobHash.job_name, JobHash.job_id).group_by(
            JobHash.job_name, JobHash.job_hash
        )""",
     """        stmt = sa.select(JobHash.job_name, JobHash.job_id).group_by(
            JobHash.job_hash
        )""",
     "unique graphs grouped by hash only: the same shape under two workflow "
     "names keeps one representative"),
    ("h-c10-links", "C10", ["C10"], SDH,
     """        for node in filtered_nodes:
            self._update_node_relations_from_node(node)
""",
     "",
     "integrity fallback no longer rebuilds the parent links of the spans it "
     "keeps"),
    ("h-c10-existing", "C10", ["C10"], SDH,
     """        filtered_nodes = [
            node for node in filtered_nodes
            if node.event_id not in existing_event_ids
        ]""",
     """        filtered_nodes = [
            node for node in filtered_nodes
            if node.event_id not in existing_event_ids
            or node.parent_event_id is None
        ]""",
     "fallback keeps root spans although they are already stored"),
    ("h-c11-join", "C11", ["C11"], SDH,
     """                    NODE_ASSOCIATION.c.child_id == NodeModel.event_id,
                )
                .where(NODE_ASSOCIATION.c.parent_id.in_(sa.select(stmt_1)))""",
     """                    NODE_ASSOCIATION.c.parent_id == NodeModel.event_id,
                )
                .where(NODE_ASSOCIATION.c.parent_id.in_(sa.select(stmt_1)))""",
     "inconsistent-job detection joins on the parent column: traces with a "
     "dangling parent are no longer found"),
    ("h-c11-rootname", "C11", ["C11"], SDH,
     """            stmt_1 = sa.select(NodeModel.job_id, NodeModel.job_name).filter(
                NodeModel.parent_event_id.is_(None)
            )""",
     """            stmt_1 = sa.select(NodeModel.job_id, NodeModel.job_name).filter(
                NodeModel.parent_event_id.isnot(None)
            )""",
     "workflow name propagated from a non-root span"),
    ("h-c11-lowedge", "C11", ["C11"], SDH,
     """                            & (NodeModel.start_timestamp >= time_window[0])
                        )
                        | (
                            (NodeModel.end_timestamp <= time_window[1])
                            & (NodeModel.end_timestamp >= time_window[0])
                        )
                    )
                    > 0
                )
            )
            stmt_2 = sa.delete(NodeModel).where(""",
     """                            & (NodeModel.start_timestamp > time_window[0])
                        )
                        | (
                            (NodeModel.end_timestamp <= time_window[1])
                            & (NodeModel.end_timestamp > time_window[0])
                        )
                    )
                    > 0
                )
            )
            stmt_2 = sa.delete(NodeModel).where(""",
     "cleaning window open at the lower edge (>= became >)"),
    ("h-c12-filter-or", "C12", ["C12"], SDH,
     """                (NodeModel.job_name == job_name)
                & (NodeModel.job_id.in_(job_ids))""",
     """                (NodeModel.job_name == job_name)
                | (NodeModel.job_id.in_(job_ids))""",
     "stream filter built with OR instead of AND"),
    ("h-c12-noorder-name", "C12", ["C12"], SDH,
     "        query = query.order_by(NodeModel.job_name, NodeModel.job_id)"
     ".yield_per(",
     "        query = query.order_by(NodeModel.job_id)"
     ".yield_per(",
     "stream ordered by trace id only: workflow names repeat in the stream"),
    ("h-c01-subset", "C01", ["C01", "C02"], "tel2puml/events.py",
     "            count == other.get(event, -1) for event, count in "
     "self.items()",
     "            count <= other.get(event, -1) for event, count in "
     "self.items()",
     "EventSet.is_subset compares counts with <= instead of =="),
    ("h-c04-incoming", "C04", ["C04"], "tel2puml/events.py",
     """        for eventSetList in eventInput.incomingEventSets:
            event.in_event_sets.add(""",
     """        for eventSetList in eventInput.incomingEventSets[:1]:
            event.in_event_sets.add(""",
     "model load keeps only the first incoming event set of every event"),
    ("h-c07-keepedge", "C07", ["C07", "C01"],
     "tel2puml/loop_detection/sub_graph_of_loop.py",
     "    remove_event_edges_and_event_sets(loop.edges_to_remove, graph)\n",
     "",
     "loop-back edges are not removed from the loop sub graph"),
    ("h-c14-prev", "C14", ["C14"], "tel2puml/pv_event_simulator.py",
     "        previousEventIds=(pv_dict.get(mapping_config.previousEventIds, "
     "[])),",
     "        previousEventIds=(pv_dict.get(\"previousEventIds\", [])),",
     "loading PV files ignores the custom name of previousEventIds: links "
     "are lost when a mapping config renames that key"),
    ("h-c14-save-jobname", "C14", ["C14"],
     "tel2puml/otel_to_pv/otel_to_pv.py",
     """                    getattr(mapping_config, key): value
                    for key, value in pv_event.items()""",
     """                    getattr(mapping_config, key): value
                    for key, value in pv_event.items()
                    if key != "applicationName\"""",
     "saving with a mapping config drops applicationName"),
    ("h-c04-jobkey", "C04", ["C04"], "tel2puml/otel_to_puml.py",
     """            job_name, events = load_events_from_file(str(input_puml_model))
            events_to_jobs_map[job_name] = events""",
     """            _, events = load_events_from_file(str(input_puml_model))
            job_name = os.path.basename(str(input_puml_model)).replace(
                "_model.json", ""
            )
            events_to_jobs_map[job_name] = events""",
     "loaded models are keyed by the model file's name instead of the job "
     "name stored in it: a workflow whose name contains a space (file name "
     "WF_b_model.json, job name 'WF b') is learnt from scratch in the later "
     "run (otel2puml route, several workflows)"),
    ("h-c04-lastmodel", "C04", ["C04"], "tel2puml/otel_to_puml.py",
     """            events_to_jobs_map[job_name] = events
""",
     """            events_to_jobs_map = {job_name: events}
""",
     "only the last model of the -im list is kept: every other workflow of "
     "an otel2puml run is learnt from scratch"),
    ("h-revert-5f3ad58", "C04", ["C04"], "tel2puml/events.py",
     """        if event.event_sets:
            # logic gate tree must be calculated from the loaded event sets
            event._update_since_logic_gate_tree = True
""",
     "",
     "revert of fix 5f3ad58 (stale gate tree after model load)"),
    ("h-revert-4c0c0e0", "C15", ["C15"], SDH,
     """    with sql_data_holder.session as session:
        session.execute(sa.delete(JobHash))
        session.commit()
    temp_table = create_temp_table_of_root_nodes_in_time_window(""",
     """    temp_table = create_temp_table_of_root_nodes_in_time_window(""",
     "revert of fix 4c0c0e0 (job_hashes cleared before unique graphs)"),
    ("h-revert-d1cda90", "C15", ["C15"], SDH,
     """        session.execute(
            sa.delete(NODE_ASSOCIATION).where(
                not_(
                    sa.exists().where(
                        NODE_ASSOCIATION.c.child_id == NodeModel.event_id
                    )
                )
            )
        )
""",
     """        return
""",
     "revert of fix d1cda90 (associations of removed spans are left behind "
     "again); note: removing only one of the two call sites is an equivalent "
     "mutant because the other call cleans up for both"),
]


def main():
    only = set(sys.argv[1:])
    os.makedirs(OUT, exist_ok=True)
    for mid, prop, det, path, old, new, desc in M:
        if only and mid not in only:
            continue
        tmp = tempfile.mkdtemp(prefix="verif-mk-", dir="/tmp")
        try:
            scratch = os.path.join(tmp, "repo")
            subprocess.run(["rsync", "-a", "--exclude", ".git", "--exclude",
                            "__pycache__", REPO + "/", scratch + "/"],
                           check=True)
            src = open(os.path.join(scratch, path)).read()
            if src.count(old) != 1:
                print(mid, "ANCHOR NOT UNIQUE", src.count(old))
                continue
            open(os.path.join(scratch, path), "w").write(
                src.replace(old, new))
            d = subprocess.run(["diff", "-u", os.path.join(REPO, path),
                                os.path.join(scratch, path)],
                               capture_output=True, text=True).stdout
            d = d.replace(os.path.join(scratch, path), "b/" + path).replace(
                os.path.join(REPO, path), "a/" + path)
            t = subprocess.run(
                ["/venv/bin/python", "-m", "pytest", "-q", "-p",
                 "no:cacheprovider", "--timeout=900",
                 "--continue-on-collection-errors"], cwd=scratch,
                capture_output=True, text=True)
            summ = [ln for ln in t.stdout.splitlines() if " passed" in ln]
            summ = summ[-1] if summ else "?"
            ok = "120 passed" in summ and "2 failed" in summ
            print(mid, "suite:", summ.strip(), "KEEP" if ok else "DROP")
            if not ok:
                shutil.rmtree(os.path.join(OUT, mid), ignore_errors=True)
                continue
            os.makedirs(os.path.join(OUT, mid), exist_ok=True)
            open(os.path.join(OUT, mid, "patch.diff"), "w").write(d)
            json.dump({"id": mid, "property": prop,
                       "source": "hand-written sensitivity mutant "
                                 "(tools/mkmutants.py)",
                       "change": desc, "detected_by": det,
                       "test_suite_with_change": summ.strip()},
                      open(os.path.join(OUT, mid, "meta.json"), "w"),
                      indent=1)
        finally:
            shutil.rmtree(tmp, ignore_errors=True)


if __name__ == "__main__":
    main()
