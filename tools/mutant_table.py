"""Print the markdown table of DESIGN.md 9.6 from seeded/*/meta.json,
mutants/*/meta.json and mutant_results.json."""
import glob
import json
import os

res = json.load(open("/verif/mutant_results.json"))
print("| change | property | what it does | needs | check -> result (quick tier, seconds) |")
print("|---|---|---|---|---|")
for f in sorted(glob.glob("/verif/seeded/*/meta.json")
                + glob.glob("/verif/mutants/*/meta.json")):
    m = json.load(open(f))
    r = res.get(m["id"], {})
    cells = "; ".join(
        f"{c}: {v['result']} ({v['seconds']}s)" for c, v in sorted(r.items()))
    print(f"| {m['id']} | {m['property']} | {m['change']} | "
          f"{m.get('needs_to_manifest', '-')} | {cells or 'not run'} |")
