import json, sys, time
import os; sys.path[:0] = ['/verif', '/verif/sim/janus_stub', os.environ.get('VERIF_REPO','/repo')]
from sim import core, checks_store as cs, world_store as ws, checks_cli as cc, world_cli as wc
what = sys.argv[1]; nproc = int(sys.argv[2])
if what == "store":
    lo, hi = int(sys.argv[3]), int(sys.argv[4])
    units = []
    for prop in ("C09", "C10", "C11", "C12"):
        for i in range(lo, hi):
            idx = ws.MIXED_BASE + i
            units.append({"kind": "store", "prop": prop, "idx": idx,
                          "hash_class": cs.hash_class_of(idx),
                          "differential": prop == "C11"})
    res = core.run_units("world_store", units, nproc=nproc)
    stats = {}
    for u, r in zip(units, res):
        if r.get("status") != "ok":
            cls = ["HARNESS:" + str(r.get("status"))]
        else:
            cls = [e[0] for e in r["errs"].get(u["prop"], [])]
        k = u["prop"] + ":" + ("|".join(sorted(set(cls))) or "ok")
        stats[k] = stats.get(k, 0) + 1
        if cls:
            print(u["prop"], u["idx"], cls, str(r.get("errs", {}).get(u["prop"]))[:400], flush=True)
    print(json.dumps(stats, indent=1))
else:
    lo, hi = int(sys.argv[3]), int(sys.argv[4])
    units = [cc.c14_unit(wc.SPECIAL_BASE + i) for i in range(lo, hi)]
    res = core.run_units("world_cli", units, nproc=nproc)
    stats = {}
    for u, r in zip(units, res):
        cls = cc.classes(r) if r.get("status") == "ok" else ["HARNESS:" + str(r.get("status"))]
        if any(e[0] == "harness" for e in r.get("errs", [])):
            cls.append("HARNESS:inner")
        k = "|".join(sorted(set(cls))) or "ok"
        stats[k] = stats.get(k, 0) + 1
        if cls:
            print(u["idx"], cls, str(r.get("errs"))[:400], flush=True)
    print(json.dumps(stats, indent=1))
