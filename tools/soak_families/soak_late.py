import json, sys
import os; sys.path[:0] = ['/verif', '/verif/sim/janus_stub', os.environ.get('VERIF_REPO','/repo')]
from sim import core, checks_store as cs, world_store as ws
nproc = int(sys.argv[1]); lo, hi = int(sys.argv[2]), int(sys.argv[3]); props = sys.argv[4].split(",")
units = []
for prop in props:
    for i in range(lo, hi):
        idx = {"mixed": ws.MIXED_BASE, "grow": ws.GROW_BASE}.get(sys.argv[5] if len(sys.argv) > 5 else "", ws.LATE_BASE) + i
        units.append({"kind": "store", "prop": prop, "idx": idx,
                      "hash_class": cs.hash_class_of(idx), "differential": prop == "C11"})
res = core.run_units("world_store", units, nproc=nproc)
stats = {}; rem = {}
for u, r in zip(units, res):
    if r.get("status") != "ok":
        cls = ["HARNESS:" + str(r.get("status"))]
    else:
        cls = [e[0] for e in r["errs"].get(u["prop"], [])]
        for t, why in r.get("removed", {}).items():
            rem[why] = rem.get(why, 0) + 1
        rem["buf%d" % r["time_buffer"]] = rem.get("buf%d" % r["time_buffer"], 0) + 1
        if r["time_buffer"] == 0 and "outside" in r.get("removed", {}).values():
            rem["buf0_with_outside"] = rem.get("buf0_with_outside", 0) + 1
    k = u["prop"] + ":" + ("|".join(sorted(set(cls))) or "ok")
    stats[k] = stats.get(k, 0) + 1
    if cls:
        print(u["prop"], u["idx"], cls, str(r.get("errs", {}).get(u["prop"]))[:500], flush=True)
print(json.dumps(stats, indent=1)); print(rem)
