import json, sys, os, time
sys.path[:0] = ['/verif', '/verif/sim/janus_stub', os.environ.get('VERIF_REPO','/repo')]
from sim import core, checks_store as cs, world_store as ws
nproc = int(sys.argv[1]); lo, hi = int(sys.argv[2]), int(sys.argv[3]); props = sys.argv[4].split(",")
units = []
for prop in props:
    for i in range(lo, hi):
        idx = ws.LARGE_BASE + ws.MANY_FROM + i
        units.append({"kind": "store", "prop": prop, "idx": idx,
                      "hash_class": cs.hash_class_of(idx), "differential": prop == "C11"})
t0 = time.time()
res = core.run_units("world_store", units, nproc=nproc)
stats = {}
for u, r in zip(units, res):
    if r.get("status") != "ok":
        cls = ["HARNESS:" + str(r.get("status"))]
    else:
        cls = [e[0] for e in r["errs"].get(u["prop"], [])]
    k = u["prop"] + ":" + ("|".join(sorted(set(cls))) or "ok")
    stats[k] = stats.get(k, 0) + 1
    if cls:
        print(u["prop"], u["idx"], cls, str(r.get("errs", {}).get(u["prop"]))[:500], flush=True)
    else:
        print(u["prop"], u["idx"], "bs", r["batch_size"], "spans", r["n_spans"], "root_pages", r["probes"]["root_pages"], "groups", r.get("same_shape_groups"), flush=True)
print(json.dumps(stats, indent=1)); print("secs", time.time() - t0)
