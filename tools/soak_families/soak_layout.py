import json, sys, random
import os; sys.path[:0] = ['/verif', '/verif/sim/janus_stub', os.environ.get('VERIF_REPO','/repo')]
from sim import core, checks_cli as cc, world_cli as wc
prop = sys.argv[1]; nproc = int(sys.argv[2]); lo, hi = int(sys.argv[3]), int(sys.argv[4])
units = []
for i in range(lo, hi):
    idx = wc.LAYOUT_BASE + i
    if prop == "C14":
        units.append(cc.c14_unit(idx))
    else:
        hr = random.Random(core.grid("c15-soak-history", idx))
        for _ in range(2):
            units.append({"kind": "c15", "idx": idx, "hash_class": idx % 16,
                          "uuid_seed": core.grid("c15-uuid", idx) % 2**32,
                          "history": cc.sample_history(hr)})
res = core.run_units("world_cli", units, nproc=nproc)
stats = {}
lay = {}
for u, r in zip(units, res):
    cls = cc.classes(r) if r.get("status") == "ok" else ["HARNESS:" + str(r.get("status"))]
    if any(e[0] == "harness" for e in r.get("errs", [])):
        cls.append("HARNESS:inner")
    k = "|".join(sorted(set(cls))) or "ok"
    stats[k] = stats.get(k, 0) + 1
    if cls:
        print(u["idx"], cls, str(r.get("errs"))[:600], flush=True)
print(json.dumps(stats, indent=1))
