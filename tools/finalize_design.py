"""Regenerate the generated parts of DESIGN.md (9.6 table, 9.7 summary) from
mutant_results.json / refactor_results.json.  Idempotent."""
import json
import re
import subprocess

p = "/verif/DESIGN.md"
s = open(p).read()
table = subprocess.run(["/venv/bin/python", "/verif/tools/mutant_table.py"],
                       capture_output=True, text=True).stdout.strip()
res = json.load(open("/verif/mutant_results.json"))
pairs = sum(len(v) for v in res.values())
missed = [(k, c) for k, v in res.items() for c, x in v.items()
          if x["result"] != "DETECTED"]
head = (f"{len(res)} changes, {pairs} (change, check) pairs, "
        f"{pairs - len(missed)} detected; not detected: "
        + (", ".join(f"{k} by {c}" for k, c in missed) or "none") + ".\n\n")
block = "<!-- TABLE-BEGIN -->\n" + head + table + "\n<!-- TABLE-END -->"
if "<!-- TABLE-BEGIN -->" in s:
    s = re.sub(r"<!-- TABLE-BEGIN -->.*?<!-- TABLE-END -->", lambda m: block,
               s, flags=re.S)
else:
    s = s.replace("TABLE-PLACEHOLDER", block)
rr = json.load(open("/verif/refactor_results.json"))
rp = sum(len(v) for v in rr.values())
al = sum(1 for v in rr.values() for x in v.values() if x["result"] != "QUIET")
summ = (f"<!-- REF-BEGIN -->{len(rr)} changes, {rp} (change, check) pairs, "
        f"{rp - al} quiet, {al} alarms<!-- REF-END -->")
if "<!-- REF-BEGIN -->" in s:
    s = re.sub(r"<!-- REF-BEGIN -->.*?<!-- REF-END -->", lambda m: summ, s,
               flags=re.S)
else:
    s = s.replace("REFACTOR-PLACEHOLDER", summ)
open(p, "w").write(s)
print(head.strip(), "|", summ)
