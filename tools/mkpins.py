"""Build-time tool (never run by a check): turn the output of the grid soak
(sim/soak.py --out) into 'known' entries of known_findings.json.  Every entry
lists the specific grid points (workload id, schedule id) that fail on the
pinned tree, grouped by defect class."""
import collections
import json
import sys

sys.path[:0] = ["/verif"]
from sim import gen_defs, puml_sem  # noqa: E402

excl, out = sys.argv[1:3]
soaks = sys.argv[3:]      # later files override earlier ones per (wid, sid)
from sim import grid  # noqa: E402
CORPUS_ALL = {
    "corpus:constraints/kill/kill_with_merge_on_parent.puml":
        "corpus kill_with_merge_on_parent (upstream strict xfail): the output "
        "duplicates F behind a detached branch and rejects its own training "
        "job / admits jobs the source rejects",
    "corpus:loops/break_points/loop_with_2_breaks_one_leads_to_other.puml":
        "corpus loop_with_2_breaks_one_leads_to_other: post-break tails are "
        "lifted behind the loop as an all-detach XOR, so the job that leaves "
        "the loop normally is rejected and extra jobs are admitted",
    "corpus:loops/break_points/loop_with_2_breaks_one_leads_to_other_equiv"
    ".puml":
        "corpus loop_with_2_breaks_one_leads_to_other_equiv: emitted text puts "
        "`break` outside any `repeat`",
}
recs = {}
for f_ in soaks:
    # "only=C05,C07:/path": the workloads of that soak are explored by the
    # named properties only (excluded classes: C07; genx family: C05, C07)
    only = None
    if f_.startswith("c07only:"):
        only, f_ = ["C07"], f_.split(":", 1)[1]
    elif f_.startswith("only="):
        head, f_ = f_.split(":", 1)
        only = head[5:].split(",")
    import gzip

    for ln in (gzip.open(f_, "rt") if f_.endswith(".gz") else open(f_)):
        r = json.loads(ln)
        if only and only == ["C07"] and gen_defs.excluded_by(
                gen_defs.load_workload(r["wid"])) is None:
            only_here = None     # no longer excluded (R3 refined): explored
        else:                    # by every learner check
            only_here = only
        if only_here:
            r["only"] = only_here
            if "C03" not in only_here:
                r["status"] = "restricted"
        recs[(r["wid"], r["sched"])] = r
pts = collections.defaultdict(set)   # (prop, cls) -> {(wid, sid)}
outs = collections.defaultdict(dict)  # wid -> outcome -> [sids]
def current_classes(r):
    """Classes of a soak record under the *current* strict grammar (the
    soak keeps the emitted text of every failing record)."""
    cls = [c for c in r["cls"] if not c.startswith("C05:") or c in (
        "C05:name-missing", "C05:name-extra", "C05:placeholder-leak")]
    if r.get("text"):
        try:
            puml_sem.parse_strict(r["text"])
        except puml_sem.StrictError as e:
            cls.append("C05:" + e.cls)
    else:
        cls += [c for c in r["cls"] if c.startswith("C05:")
                and c not in cls]
    return cls


for (wid, sid), r in recs.items():
    r["cls"] = current_classes(r)
    if r.get("only"):
        r["cls"] = [c for c in r["cls"] if c.split(":")[0] in r["only"]]
    for c in r["cls"]:
        prop, cls = c.split(":", 1)
        pts[(prop, cls)].add((wid, sid))
    fl = grid.schedule_flags(sid)
    if fl["subsample"] or fl["kmax_in"] != 2:
        continue
    st = r.get("status")
    if st == "ok":
        if r.get("parse") == "unparseable":
            o = "fail:unparseable"
        elif r.get("lang") is None:
            continue
        else:
            o = "ok:%s:%s:%s" % (r["lang"], r.get("names_missing"),
                                 r.get("names_extra"))
    elif st in ("exc", "no-termination"):
        o = "fail:" + st + ":" + (r.get("exc") or "").split(":")[0]
    else:
        continue
    outs[wid].setdefault(o, []).append(sid)
findings = []
splits_y = sorted(w for w, o in outs.items()
                  if len(o) > 1 and w.startswith("geny:"))
if splits_y:
    findings.append({
        "property": "C03", "status": "known",
        "key": {"violation_class": "outcome-split"},
        "inputs": [[w, "*"] for w in splits_y],
        "what": "complete sample of a definition of the relaxed family geny "
                "(outside fragment F): which language is emitted depends on "
                "the schedule: " + ", ".join(splits_y)})
splits = sorted(w for w, o in outs.items()
                if len(o) > 1 and not w.startswith("geny:"))
if splits:
    findings.append({
        "property": "C03", "status": "known",
        "key": {"violation_class": "outcome-split"},
        "inputs": [[w, "*"] for w in splits],
        "what": "learning from a fixed partial sample (#s1) of a definition "
                "with OR forks: which language is emitted depends on the "
                "schedule (hash order / presentation) "
                f"({len(splits)} workloads of the soaked grid)"})
# per (workload, class): "*" when it fails under every soaked schedule
n_sids = collections.Counter(w for w, _ in recs)
# corpus files failing under (nearly) every schedule
for wid, what in CORPUS_ALL.items():
    for (prop, cls), s in sorted(pts.items()):
        if any(w == wid for w, _ in s):
            findings.append({
                "property": prop, "status": "known",
                "key": {"violation_class": cls},
                "inputs": [[wid, "*"]],
                "what": f"{what} [{cls}]"})
PARTIAL = ("learning from a partial sample (random subset of the executions) "
           "of a definition with OR forks / loops: ")
WHAT = {
    ("C01", "job-rejected"): PARTIAL + "the walk falls back to duplicated, "
    "detached tails and the emitted diagram rejects one of its training jobs",
    ("C01", "unparseable"): PARTIAL + "a loop body that ends in a fork is "
    "emitted without its `end split`/`end fork`",
    ("C05", "unbalanced"): PARTIAL + "a loop body that ends in a fork is "
    "emitted without its `end split`/`end fork`",
    ("C07", "conservation"): PARTIAL + "events that follow a loop are also "
    "kept inside the loop body (duplicated across the nesting)",
    ("C02", "extra-job"): PARTIAL + "sub-sample happened to be complete",
    ("C05", "break-misplaced"): PARTIAL + "break outside repeat",
}
def is_partial(w, sid):
    return "#s" in w or grid.schedule_flags(sid)["subsample"]


for (prop, cls), s in sorted(pts.items()):
    # relaxed family geny (outside fragment F), complete samples
    resty = sorted((w, sid) for w, sid in s if w.startswith("geny:"))
    if resty:
        per_w = collections.Counter(w for w, _ in resty)
        everywhere = {w for w, n in per_w.items() if n == n_sids[w]}
        findings.append({
            "property": prop, "status": "known",
            "key": {"violation_class": cls},
            "inputs": [[w, "*"] for w in sorted(everywhere)] + [
                [w, sid] for w, sid in resty if w not in everywhere],
            "what": "complete sample of a definition of the relaxed family "
                    "geny (outside fragment F: blocks back to back, a branch "
                    "or loop body beginning with a block) [" + cls + "]: "
                    + ", ".join(sorted(per_w))
                    + f" ({len(resty)} grid points of the soaked grid, "
                      f"{len(everywhere)} workloads under every schedule)"})
    for partial in (True, False):
        rest = sorted((w, sid) for w, sid in s if w not in CORPUS_ALL
                      and not w.startswith("geny:")
                      and is_partial(w, sid) == partial)
        if not rest:
            continue
        per_w = collections.Counter(w for w, _ in rest)
        everywhere = {w for w, n in per_w.items() if n == n_sids[w]}
        inputs = [[w, "*"] for w in sorted(everywhere)] + [
            [w, sid] for w, sid in rest if w not in everywhere]
        what = (WHAT.get((prop, cls), PARTIAL + cls) if partial else
                "COMPLETE sample of a definition in which a loop that ends "
                "in an AND/OR fork is the last item of a fork branch (the "
                "class next to R3: the loop-end dummy gets one in-set per "
                "end event) [" + cls + "]: "
                + ", ".join(sorted(per_w)))
        findings.append({
            "property": prop, "status": "known",
            "key": {"violation_class": cls},
            "inputs": inputs,
            "what": what
            + f" ({len(rest)} grid points of the soaked grid, "
              f"{len(everywhere)} workloads under every schedule)"})
# representatives of the structurally excluded classes
ex = json.load(open(excl))
RULE = {
    "R1": "excluded class R1 (a loop that contains a break and is the last "
          "item of its sequence: nothing after the loop anchors the exit)",
    "R2": "excluded class R2 (a loop body ending in a fork one of whose "
          "branches itself ends in a fork or loop)",
    "R3": "excluded class R3 (a trailing loop whose body ends in an AND/OR "
          "fork: the loop-end dummy gets one in-set per end event, so the "
          "closing `end fork`/`end split` is never emitted)",
}
seen = set()
for rule in ("R1", "R2", "R3"):
    cands = sorted(
        ((len(puml_sem.event_name_list(gen_defs.load_workload(w))), w, c)
         for w, (r, c) in ex.items() if r == rule and c),
        key=lambda t: (t[0], t[1]))
    done = set()
    for n, w, classes in cands:
        if all((rule, c) in done for c in classes):
            continue
        for c in classes:
            done.add((rule, c))
            prop, cls = c.split(":", 1)
            findings.append({
                "property": prop, "status": "known",
                "key": {"violation_class": cls},
                "inputs": [[w, s] for s in (0, 1, 2, 4)],
                "what": f"representative {w} of {RULE[rule]} [{cls}]"})
json.dump(findings, open(out, "w"), indent=1)
print(len(findings), "entries")
for f in findings:
    print(f["property"], f["key"]["violation_class"], len(f["inputs"]),
          f["what"][:90])
